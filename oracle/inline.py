"""Reference inliner for JASM macros (DESIGN C13) -- written from the property statement, shares no
code with JASM.  inline(rule, extra_macro_docs) returns the macro-free rule: every macro use is
replaced by the macro's body with the call's arguments substituted (simultaneously) for the formal
parameters; the expansion is repeated until no macro use is left (true inlining, independent of the
order of the definitions)."""
from __future__ import annotations

import copy
from typing import Any, Dict, List, Optional


class Undefined(Exception):
    pass


def _subst_args(body: Any, mapping: Dict[str, Any]) -> Any:
    """simultaneous substitution of formal parameters (whole strings / dict values equal to a formal)"""
    if isinstance(body, str):
        return copy.deepcopy(mapping[body]) if body in mapping else body
    if isinstance(body, list):
        return [_subst_args(x, mapping) for x in body]
    if isinstance(body, dict):
        out = {}
        for k, v in body.items():
            if k in mapping and not isinstance(v, (dict, list)):
                out[k] = copy.deepcopy(mapping[k])
            else:
                out[k] = _subst_args(v, mapping)
        return out
    return body


def _expand(tree: Any, macros: Dict[str, Dict[str, Any]], depth: int = 0) -> Any:
    if depth > 50:
        raise RecursionError("macro recursion")
    if isinstance(tree, str):
        if tree in macros:
            m = macros[tree]
            body = m["pattern"]
            body = body[0] if isinstance(body, list) else body
            return _expand(copy.deepcopy(body), macros, depth + 1)
        # string macro used inside a name
        for name, m in macros.items():
            if name in tree and isinstance(m["pattern"], str):
                return _expand(tree.replace(name, m["pattern"]), macros, depth + 1)
        if tree.startswith("@"):
            raise Undefined(tree)
        return tree
    if isinstance(tree, list):
        return [_expand(x, macros, depth) for x in tree]
    if isinstance(tree, dict):
        for name, m in macros.items():
            if name in tree:
                body = m["pattern"]
                if isinstance(body, str):
                    return _expand({body: tree[name]}, macros, depth + 1)
                args = m.get("args") or []
                call = tree[name] if isinstance(tree[name], dict) else {}
                mapping = {a: call[a] for a in args if a in call}
                return _expand(_subst_args(copy.deepcopy(body[0]), mapping), macros, depth + 1)
        out = {}
        for k, v in tree.items():
            if isinstance(k, str) and k.startswith("@"):
                raise Undefined(k)
            out[k] = _expand(v, macros, depth)
        return out
    return tree


def inline(rule: Dict[str, Any], extra_docs: Optional[List[Dict[str, Any]]] = None) -> Dict[str, Any]:
    macros: Dict[str, Dict[str, Any]] = {}
    for d in (extra_docs or []):
        for m in d.get("macros", []) or []:
            macros.setdefault(m["name"], m)
    for m in rule.get("macros", []) or []:
        macros.setdefault(m["name"], m)
    out = {k: copy.deepcopy(v) for k, v in rule.items() if k != "macros"}
    out["pattern"] = _expand(copy.deepcopy(rule["pattern"]), macros)
    return out
