"""Reference semantics of JASM patterns (DESIGN 3.4) -- a direct recursive evaluator over parsed
records.  Written from the property statements; shares no code with JASM.

A record is (addr, mnemonic, fields) where fields is the list of operand texts; an instruction
without operands has fields == [""] (one empty field), exactly as in the stream encoding.
"""
from __future__ import annotations

import itertools
from typing import Any, Dict, Iterator, List, Optional, Sequence, Tuple

Record = Tuple[str, str, List[str]]
Env = Tuple[Tuple[str, str], ...]      # immutable capture environment

OPS = ("$and", "$or", "$not", "$and_any_order")
FAMILIES = {
    "genreg": {"letters": ["a", "b", "c", "d"],
               "64": "r{}x", "32": "e{}x", "16": "{}x", "8h": "{}h", "8l": "{}l"},
    "indreg": {"letters": ["s", "d"], "64": "r{}i", "32": "e{}i", "16": "{}i", "8l": "{}il"},
    "stackreg": {"letters": ["sp"], "64": "r{}", "32": "e{}", "16": "{}", "8l": "{}l"},
    "basereg": {"letters": ["bp"], "64": "r{}", "32": "e{}", "16": "{}", "8l": "{}l"},
}


def records_from_instructions(insts: Sequence[Tuple[str, str, Sequence[str]]]) -> List[Record]:
    return [(a, m, list(o) if o else [""]) for (a, m, o) in insts]


def env_get(env: Env, k: str) -> Optional[str]:
    for a, b in env:
        if a == k:
            return b
    return None


def env_set(env: Env, k: str, v: str) -> Env:
    return env + ((k, v),)


class Sem:
    def __init__(self, fm: bool = False, fo: bool = False):
        self.fm, self.fo = fm, fo

    # ------------------------------------------------------------------ shape helpers
    @staticmethod
    def split(item: Any) -> Tuple[Any, Any, Tuple[int, int]]:
        """item -> (name, body, (min,max))"""
        if isinstance(item, (str, int)):
            return item, None, (1, 1)
        if isinstance(item, dict):
            keys = list(item.keys())
            name = keys[0]
            body = item[name]
            t = None
            if "times" in item and name != "times":
                t = item["times"]
            elif isinstance(body, dict) and "times" in body:
                t = body["times"]
                body = {k: v for k, v in body.items() if k != "times"} or None
            if t is None:
                tt = (1, 1)
            elif isinstance(t, int):
                tt = (t, t)
            else:
                tt = (t.get("min", 1), t.get("max", 1))
            return name, body, tt
        raise ValueError(f"bad item {item!r}")

    def name_in(self, name: Any, text: str, full: bool) -> bool:
        n = str(name)
        return text == n if full else n in text

    # ------------------------------------------------------------------ instruction level
    def inst(self, item: Any, recs: List[Record], i: int, env: Env) -> Iterator[Tuple[int, Env]]:
        name, body, (lo, hi) = self.split(item)
        yield from self.repeat(lambda k, e: self.inst_once(name, body, recs, k, e), i, env, lo, hi)

    def repeat(self, once, i, env, lo, hi) -> Iterator[Tuple[int, Any]]:
        frontier = {(i, env)}
        if lo == 0:
            yield i, env
        seen_out = set()
        for r in range(1, hi + 1):
            nxt = set()
            for (k, e) in frontier:
                for (k2, e2) in once(k, e):
                    nxt.add((k2, e2))
            if not nxt:
                return
            if r >= max(lo, 1):
                for x in nxt:
                    if x not in seen_out:
                        seen_out.add(x)
                        yield x
            frontier = nxt

    def inst_once(self, name, body, recs, i, env) -> Iterator[Tuple[int, Env]]:
        sname = str(name)
        if sname == "$and":
            yield from self.seq_inst(body, recs, i, env)
        elif sname == "$or":
            for c in body:
                yield from self.inst(c, recs, i, env)
        elif sname == "$and_any_order":
            for perm in itertools.permutations(body):
                yield from self.seq_inst(list(perm), recs, i, env)
        elif sname == "$not":
            if i < len(recs) and not any(True for _ in self.inst(body[0], recs, i, env)):
                yield i + 1, env
        elif sname.startswith("&"):
            if i >= len(recs):
                return
            _a, mn, fields = recs[i]
            text = ",".join([mn] + fields)
            cur = env_get(env, sname)
            if cur is None:
                yield i + 1, env_set(env, sname, text)
            elif cur == text:
                yield i + 1, env
        else:
            if i >= len(recs):
                return
            _a, mn, fields = recs[i]
            if not self.name_in(name, mn, self.fm):
                return
            ops = body if isinstance(body, list) else []
            for (k, e) in self.seq_oper(ops, fields, 0, env):
                yield i + 1, e

    def seq_inst(self, items, recs, i, env) -> Iterator[Tuple[int, Env]]:
        if not items:
            yield i, env
            return
        for (j, e) in self.inst(items[0], recs, i, env):
            yield from self.seq_inst(items[1:], recs, j, e)

    # ------------------------------------------------------------------ operand level
    def seq_oper(self, items, fields, k, env) -> Iterator[Tuple[int, Env]]:
        if not items:
            yield k, env
            return
        for (j, e) in self.oper(items[0], fields, k, env):
            yield from self.seq_oper(items[1:], fields, j, e)

    def oper(self, item, fields, k, env) -> Iterator[Tuple[int, Env]]:
        name, body, (lo, hi) = self.split(item)
        yield from self.repeat(lambda kk, e: self.oper_once(name, body, fields, kk, e), k, env, lo, hi)

    def oper_once(self, name, body, fields, k, env) -> Iterator[Tuple[int, Env]]:
        sname = str(name)
        if sname == "$and":
            yield from self.seq_oper(body, fields, k, env)
        elif sname == "$or":
            for c in body:
                yield from self.oper(c, fields, k, env)
        elif sname == "$and_any_order":
            for perm in itertools.permutations(body):
                yield from self.seq_oper(list(perm), fields, k, env)
        elif sname == "$not":
            if k < len(fields) and not any(True for _ in self.oper(body[0], fields, k, env)):
                yield k + 1, env
        elif sname == "$deref":
            if k < len(fields):
                for e in self.deref(body, fields[k], env):
                    yield k + 1, e
        elif sname.startswith("&"):
            if k < len(fields):
                for e in self.capture_text(sname, fields[k], env, whole_operand=True):
                    yield k + 1, e
        else:
            if k < len(fields) and self.name_in(name, fields[k], self.fo):
                yield k + 1, env

    # ------------------------------------------------------------------ captures
    @staticmethod
    def family_of(cname: str) -> Optional[Tuple[str, Optional[str]]]:
        base = cname[1:]
        parts = base.split(".")
        fam = parts[0]
        if fam in FAMILIES:
            suf = parts[1].lower() if len(parts) > 1 else None
            return fam, suf
        return None

    def capture_text(self, cname: str, text: str, env: Env, whole_operand: bool) -> Iterator[Env]:
        fam = self.family_of(cname)
        if fam is None:
            if text == "":
                return
            cur = env_get(env, cname)
            if cur is None:
                yield env_set(env, cname, text)
            elif cur == text:
                yield env
            return
        family, suf = fam
        tab = FAMILIES[family]
        key = "&" + family
        t = text[1:] if text.startswith("%") else text
        widths = [suf] if suf else [w for w in tab if w != "letters"]
        cur = env_get(env, key)
        for w in widths:
            if w not in tab:
                continue
            for letter in ([cur] if cur is not None else tab["letters"]):
                if tab[w].format(letter) == t:
                    yield env if cur is not None else env_set(env, key, letter)
                    return

    # ------------------------------------------------------------------ deref
    def deref(self, body: Dict[str, Any], field: str, env: Env) -> Iterator[Env]:
        if not (field.startswith("[") and field.endswith("]")):
            return
        inner = field[1:-1]
        comp = self.parse_bracket(inner)
        if comp is None:
            return
        want = {k: body.get(k) for k in ("main_reg", "register_multiplier", "constant_multiplier", "constant_offset")}
        have = comp
        # exactly the present components
        for k in want:
            if (want[k] is None) != (have[k] is None):
                return
        envs = [env]
        for k in ("main_reg", "register_multiplier", "constant_multiplier", "constant_offset"):
            if want[k] is None:
                continue
            nxt = []
            for e in envs:
                nxt.extend(self.deref_comp(want[k], have[k], e, is_reg=k in ("main_reg", "register_multiplier")))
            envs = nxt
        yield from envs

    @staticmethod
    def parse_bracket(inner: str) -> Optional[Dict[str, Optional[str]]]:
        """a | a+k | a+b*c | a+b*c+k | +b*c+k   (k may be negative: a+-0x8)"""
        out = {"main_reg": None, "register_multiplier": None, "constant_multiplier": None, "constant_offset": None}
        parts = inner.split("+")
        if len(parts) == 1:
            out["main_reg"] = parts[0]
        elif len(parts) == 2:
            if "*" in parts[1]:
                b, c = parts[1].split("*", 1)
                out["main_reg"], out["register_multiplier"], out["constant_multiplier"] = parts[0], b, c
            elif parts[1].startswith("%"):
                # 16-bit addressing prints base and index without scale: (%bx,%si) -> [%bx+%si]
                out["main_reg"], out["register_multiplier"] = parts[0], parts[1]
            else:
                out["main_reg"], out["constant_offset"] = parts[0], parts[1]
        elif len(parts) == 3 and "*" not in parts[1] and parts[1].startswith("%"):
            out["main_reg"], out["register_multiplier"], out["constant_offset"] = parts[0], parts[1], parts[2]
        elif len(parts) == 3 and "*" in parts[1]:
            b, c = parts[1].split("*", 1)
            out["main_reg"], out["register_multiplier"], out["constant_multiplier"], out["constant_offset"] = \
                parts[0], b, c, parts[2]
        else:
            return None
        if out["main_reg"] == "":
            out["main_reg"] = None
        return out

    def deref_comp(self, want: Any, have: str, env: Env, is_reg: bool) -> Iterator[Env]:
        if isinstance(want, dict):
            name, body, _t = self.split(want)
            if str(name) == "$or":
                for c in body:
                    yield from self.deref_comp(c, have, env, is_reg)
                return
            raise ValueError(f"unsupported deref component {want!r}")
        if isinstance(want, list):
            for c in want:
                yield from self.deref_comp(c, have, env, is_reg)
            return
        w = str(want)
        if w.startswith("&"):
            yield from self.capture_text(w, have, env, whole_operand=False)
            return
        if is_reg:
            if have in (w, "%" + w):
                yield env
        else:
            if have in (w, "0x" + w):
                yield env

    # ------------------------------------------------------------------ top level
    def matches(self, pattern: List[Any], recs: List[Record]) -> List[Tuple[int, int]]:
        out = []
        for i in range(len(recs) + 1):
            ends = sorted(set(j for (j, _e) in self.seq_inst(pattern, recs, i, ())))
            for j in ends:
                out.append((i, j))
        return out

    def found(self, pattern: List[Any], recs: List[Record]) -> bool:
        for i in range(len(recs) + 1):
            for (j, _e) in self.seq_inst(pattern, recs, i, ()):
                if j > i:
                    return True
        return False

    def scan(self, pattern: List[Any], recs: List[Record]) -> List[Tuple[int, List[int]]]:
        """leftmost non-overlapping scan: list of (start, possible ends) -- the engine's priority
        decides which end is taken, so the oracle keeps all of them"""
        res = []
        i = 0
        while i <= len(recs):
            ends = sorted(set(j for (j, _e) in self.seq_inst(pattern, recs, i, ()) if j > i))
            if ends:
                res.append((i, ends))
                i = None  # caller resumes from the end actually taken
                break
            i += 1
        return res


def stream_of(recs: Sequence[Record]) -> str:
    return "".join(f"{a}::{m}," + ",".join(f) + ",|" for (a, m, f) in recs)
