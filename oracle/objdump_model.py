"""Independent decoder of objdump -d -M att listing lines (reference for C08/C09/C10/C16).
Tab-split, no regular expressions shared with JASM.  Returns (addr, mnemonic, [normalised operands])
for an instruction line and None for every other line kind."""
from __future__ import annotations

from typing import List, Optional, Tuple

HEXD = set("0123456789abcdef")


def split_operands(text: str) -> List[str]:
    out, cur, depth = [], "", 0
    for ch in text:
        if ch == "(":
            depth += 1
        elif ch == ")":
            depth = max(0, depth - 1)
        if ch == "," and depth == 0:
            out.append(cur)
            cur = ""
        else:
            cur += ch
    out.append(cur)
    return out


def normalise(op: str) -> str:
    """normal form of C09: $v -> v ; %r unchanged ; k(a,b,c) -> [a+b*c+k] ... ; bare target unchanged"""
    if "(" in op and op.endswith(")"):
        i = op.index("(")
        disp, inner = op[:i], op[i + 1:-1]
        parts = inner.split(",")
        if len(parts) == 1:
            body = parts[0]
        elif len(parts) == 3:
            body = f"{parts[0]}+{parts[1]}*{parts[2]}"
        elif len(parts) == 2:
            body = f"{parts[0]}+{parts[1]}"
        else:
            body = inner
        return f"[{body}+{disp}]" if disp else f"[{body}]"
    if op.startswith("$"):
        return op[1:]
    return op


def decode_line(line: str) -> Optional[Tuple[str, str, List[str]]]:
    parts = line.split("\t")
    if len(parts) < 3:
        return None
    head, byt, text = parts[0], parts[1], "\t".join(parts[2:])
    a = head.strip()
    if not a.endswith(":") or not a[:-1] or any(c not in HEXD for c in a[:-1].lower()):
        return None
    bs = byt.strip().split(" ")
    if not bs or any(len(b) != 2 or any(c not in HEXD for c in b.lower()) for b in bs):
        return None
    text = text.replace("data16 ", "")
    toks = [t for t in text.split(" ") if t != ""]
    if not toks:
        return None
    mn = toks[0]
    if mn == "(bad)":
        mn = "bad"
    mn = mn.replace(",", ".")      # branch hints (jo,pn): the separator may not occur inside a field
    ops: List[str] = []
    if len(toks) > 1 and not toks[1].startswith("#"):
        optext = toks[1].split("#")[0]
        if optext:
            ops = [normalise(o) for o in split_operands(optext)]
    return a[:-1], mn, ops


def decode_listing(text: str) -> List[Tuple[str, str, List[str]]]:
    out = []
    for ln in text.split("\n"):
        r = decode_line(ln)
        if r is not None:
            out.append(r)
    return out
