#!/bin/bash
# Builds /verif/.venv offline: python 3.12 venv (from /venv's interpreter) with z3-solver, cvc5,
# jsonschema from the local wheelhouse, plus a .pth that exposes /venv's site-packages
# (yaml, regex, jasm editable -> /repo/src). Idempotent.
set -e
cd "$(dirname "$0")"
V=.venv
if [ -x "$V/bin/python" ] && "$V/bin/python" -c "import z3, yaml, regex, jsonschema" 2>/dev/null; then
  exit 0
fi
rm -rf "$V"
/venv/bin/python -m venv "$V"
PIP_NO_INDEX=1 "$V/bin/python" -m pip install -q --no-index --find-links /opt/veriftools/wheels z3-solver jsonschema >/dev/null
PIP_NO_INDEX=1 "$V/bin/python" -m pip install -q --no-index --find-links /opt/veriftools/wheels cvc5 >/dev/null 2>&1 || true
SP=$("$V/bin/python" -c "import sysconfig; print(sysconfig.get_paths()['purelib'])")
echo "import site; site.addsitedir('/venv/lib/python3.12/site-packages')" > "$SP/_repo_deps.pth"
"$V/bin/python" -c "import z3, yaml, regex, jsonschema; print('venv ok', z3.get_version_string())"
