"""pyvc core: run REAL function objects under CPython on proxy values; explore every path by
decision-prefix re-execution; path conditions are z3 terms.

Only operations *on proxies* are modelled; everything concrete is CPython's own semantics.
An unmodelled operation on a proxy raises Unsupported -> the obligation is undecided.
"""
from __future__ import annotations

import itertools
import os
import traceback
from dataclasses import dataclass, field
from typing import Any, Callable, Dict, List, Optional, Tuple

import z3

from .markers import MarkerTable
from .rx import Unsupported


class Infeasible(Exception):
    pass


class PathLimit(Exception):
    pass


@dataclass
class Path:
    pc: List[Any]
    kind: str                 # 'ret' | 'exc'
    value: Any
    decisions: Tuple[bool, ...]
    log: List[Tuple[str, Any]]
    excluded: List[str]


class Ctx:
    """one exploration context (one payload variant)"""

    def __init__(self, variant: int = 0):
        self.table = MarkerTable(variant)
        self.variant = variant
        self.prefix: List[bool] = []
        self.pos = 0
        self.pc: List[Any] = []
        self.log: List[Tuple[str, Any]] = []
        self.excluded: List[str] = []
        self.fresh = 0
        self.solver_calls = 0
        self.solver_time = 0.0
        self.assumptions: List[Any] = []     # global assumptions (preconditions)

    def reset_path(self):
        self.pos = 0
        self.pc = list(self.assumptions)
        self.log = []
        self.excluded = []
        self.fresh = 0

    def sat(self, *conds) -> bool:
        import time
        s = z3.Solver()
        s.set("timeout", 20000)
        s.add(*self.pc)
        s.add(*conds)
        t = time.time()
        r = s.check()
        self.solver_calls += 1
        self.solver_time += time.time() - t
        if r == z3.unknown:
            raise Unsupported("z3 unknown on a path condition")
        return r == z3.sat

    def branch(self, cond) -> bool:
        """decide a symbolic condition; forks when both outcomes are feasible"""
        cond = z3.simplify(cond)
        if z3.is_true(cond):
            return True
        if z3.is_false(cond):
            return False
        can_t = self.sat(cond)
        can_f = self.sat(z3.Not(cond))
        if can_t and not can_f:
            return True
        if can_f and not can_t:
            return False
        if not can_t and not can_f:
            raise Infeasible()
        if self.pos < len(self.prefix):
            d = self.prefix[self.pos]
        else:
            d = True
            self.prefix.append(d)
        self.pos += 1
        self.pc.append(cond if d else z3.Not(cond))
        return d

    def choose(self, n: int, what: str = "") -> int:
        """non-deterministic choice among n alternatives (binary decisions)"""
        for i in range(n - 1):
            b = z3.Bool(f"choice!{what}!{self.pos}!{i}")
            if self.branch(b):
                return i
        return n - 1

    def fresh_name(self, base: str) -> str:
        self.fresh += 1
        return f"{base}!{self.fresh}"

    def note(self, kind: str, data: Any):
        self.log.append((kind, data))


CUR: Optional[Ctx] = None


def ctx() -> Ctx:
    if CUR is None:
        raise RuntimeError("no active pyvc context")
    return CUR


_HERE = os.path.dirname(os.path.dirname(os.path.abspath(__file__)))


def _raised_by_contract(e: BaseException) -> bool:
    if isinstance(e, AttributeError):
        # the code under contract asks a stub of the contract for an attribute the stub does not model
        obj = getattr(e, "obj", None)
        mod = getattr(obj if isinstance(obj, type) else type(obj), "__module__", "") or ""
        if obj is not None and (mod.startswith("contracts.") or mod.startswith("vf.")):
            return True
    if isinstance(e, TypeError):
        # the code under contract calls a stub of the contract with a shape the stub does not accept (a parameter was added):
        # "<qualname>() got an unexpected keyword argument ..." / "takes N positional arguments but M were given" / "missing ..."
        import re as _re_
        import sys as _sys_
        m = _re_.match(r"([\w.<>]+)\(\) (?:got an unexpected keyword argument|got multiple values|takes |missing )", str(e))
        if m:
            head = m.group(1).split(".")[0]
            for name, module in list(_sys_.modules.items()):
                if name.startswith("contracts.") and hasattr(module, head):
                    return True
    tb = e.__traceback__
    last = None
    while tb is not None:
        last = tb
        tb = tb.tb_next
    if last is None:
        return False
    f = os.path.abspath(last.tb_frame.f_code.co_filename)
    return f.startswith(os.path.join(_HERE, "contracts") + os.sep)


def explore(fn: Callable[[], Any], variant: int = 0, assumptions: Optional[Callable[[Ctx], List[Any]]] = None,
            max_paths: int = 4000) -> Tuple[List[Path], Ctx]:
    """run fn() once per feasible decision prefix"""
    global CUR
    c = Ctx(variant)
    CUR = c
    paths: List[Path] = []
    try:
        c.prefix = []
        while True:
            c.reset_path()
            try:
                try:
                    v = fn()
                    paths.append(Path(list(c.pc), "ret", v, tuple(c.prefix[:c.pos]), list(c.log), list(c.excluded)))
                except (Infeasible, Unsupported, PathLimit):
                    raise
                except RecursionError:
                    raise Unsupported("recursion limit")
                except Exception as e:  # exceptional path of the function under contract
                    if isinstance(e, (AttributeError, TypeError)) and _raised_by_contract(e):
                        # the sidecar contract's own call does not fit this tree (target renamed / removed, changed
                        # signature): nothing is known about the code -- undecided, never an exceptional path of it
                        raise Unsupported(f"the contract does not fit the tree: {type(e).__name__}: {e}")
                    e._pyvc_tb = traceback.format_exc(limit=6)
                    paths.append(Path(list(c.pc), "exc", e, tuple(c.prefix[:c.pos]), list(c.log), list(c.excluded)))
            except Infeasible:
                pass
            if len(paths) > max_paths:
                raise PathLimit(f"more than {max_paths} paths")
            p = c.prefix[:c.pos]
            while p and p[-1] is False:
                p.pop()
            if not p:
                break
            p[-1] = False
            c.prefix = p
    finally:
        CUR = None
    return paths, c


# --------------------------------------------------------------------------- proxies
class SymBool:
    def __init__(self, t):
        self.t = t

    def __bool__(self):
        return ctx().branch(self.t)

    def __invert__(self):
        return SymBool(z3.Not(self.t))

    @staticmethod
    def _bt(o):
        if isinstance(o, SymBool):
            return o.t
        if isinstance(o, bool):
            return z3.BoolVal(o)
        return None

    def __eq__(self, o):
        t = self._bt(o)
        if t is None:
            if isinstance(o, int) and not isinstance(o, SymInt) and o in (0, 1):
                t = z3.BoolVal(bool(o))
            else:
                raise Unsupported(f"comparison of a symbolic truth value with {type(o).__name__}")
        return SymBool(z3.simplify(self.t == t))

    def __ne__(self, o):
        return SymBool(z3.Not(self.__eq__(o).t))

    __hash__ = object.__hash__

    def __and__(self, o):
        t = self._bt(o)
        if t is None:
            raise Unsupported("& between a symbolic truth value and a non-boolean")
        return SymBool(z3.And(self.t, t))

    def __or__(self, o):
        t = self._bt(o)
        if t is None:
            raise Unsupported("| between a symbolic truth value and a non-boolean")
        return SymBool(z3.Or(self.t, t))

    def __xor__(self, o):
        t = self._bt(o)
        if t is None:
            raise Unsupported("^ between a symbolic truth value and a non-boolean")
        return SymBool(z3.Xor(self.t, t))

    __rand__, __ror__, __rxor__ = __and__, __or__, __xor__

    def _unsup(self, *a, **k):
        raise Unsupported("a symbolic truth value used as a number / text")

    __int__ = __index__ = __float__ = __str__ = __format__ = __add__ = __radd__ = __sub__ = __rsub__ = __mul__ = __rmul__ = _unsup
    __lt__ = __le__ = __gt__ = __ge__ = _unsup

    def __repr__(self):
        return f"SymBool({self.t})"


def _term(x):
    if isinstance(x, SymInt):
        return x.t
    if isinstance(x, bool):
        return z3.IntVal(int(x))
    if isinstance(x, int):
        return z3.IntVal(x)
    raise Unsupported(f"arithmetic between a symbolic integer and {type(x).__name__}")


_PAYLOADS = [7919, 104729]


class SymInt(int):
    """symbolic mathematical integer (Python ints are unbounded: no overflow to model)"""

    def __new__(cls, term, name: Optional[str] = None):
        o = int.__new__(cls, _PAYLOADS[ctx().variant if CUR else 0])
        o.t = term
        o.name = name or str(term)
        return o

    # comparisons
    def _cmp(self, other, op):
        if isinstance(other, (int,)) and not isinstance(other, SymInt) or isinstance(other, SymInt):
            return SymBool(op(self.t, _term(other)))
        if other is None:
            return False
        raise Unsupported(f"comparison of a symbolic integer with {type(other).__name__}")

    def __eq__(self, o):
        if isinstance(o, (str, list, dict, tuple)) or o is None:
            return False
        return self._cmp(o, lambda a, b: a == b)

    def __ne__(self, o):
        if isinstance(o, (str, list, dict, tuple)) or o is None:
            return True
        return self._cmp(o, lambda a, b: a != b)

    def __lt__(self, o):
        return self._cmp(o, lambda a, b: a < b)

    def __le__(self, o):
        return self._cmp(o, lambda a, b: a <= b)

    def __gt__(self, o):
        return self._cmp(o, lambda a, b: a > b)

    def __ge__(self, o):
        return self._cmp(o, lambda a, b: a >= b)

    def __bool__(self):
        return ctx().branch(self.t != 0)

    def __hash__(self):
        raise Unsupported("hash of a symbolic integer")

    def __index__(self):
        raise Unsupported("symbolic integer used as an index")

    def __add__(self, o):
        return SymInt(self.t + _term(o))

    __radd__ = __add__

    def __sub__(self, o):
        return SymInt(self.t - _term(o))

    def __rsub__(self, o):
        return SymInt(_term(o) - self.t)

    def __neg__(self):
        return SymInt(-self.t)

    def __mul__(self, o):
        return SymInt(self.t * _term(o))

    __rmul__ = __mul__

    def __mod__(self, o):
        # Python's % and // round towards minus infinity; for a POSITIVE concrete divisor that is SMT-LIB's mod / div
        if isinstance(o, int) and not isinstance(o, SymInt) and o > 0:
            return SymInt(self.t % z3.IntVal(o))
        raise Unsupported("% with a symbolic or non-positive divisor")

    def __floordiv__(self, o):
        if isinstance(o, int) and not isinstance(o, SymInt) and o > 0:
            return SymInt(self.t / z3.IntVal(o))
        raise Unsupported("// with a symbolic or non-positive divisor")

    def _int_unsup(self, *a, **k):
        # every other operation of int would silently compute with the proxy's payload
        raise Unsupported("unmodelled arithmetic on a symbolic integer")

    __rmod__ = __rfloordiv__ = __truediv__ = __rtruediv__ = __divmod__ = __rdivmod__ = __pow__ = __rpow__ = _int_unsup
    __and__ = __rand__ = __or__ = __ror__ = __xor__ = __rxor__ = __lshift__ = __rlshift__ = __rshift__ = __rrshift__ = __invert__ = _int_unsup
    __abs__ = __float__ = __round__ = __trunc__ = __floor__ = __ceil__ = __pos__ = _int_unsup
    bit_length = bit_count = to_bytes = conjugate = as_integer_ratio = _int_unsup

    def __int__(self):
        return self

    def _text(self):
        m = ctx().table.new("int", "int:" + self.name, term=self.t)
        return m.text

    def __format__(self, spec):
        if spec:
            raise Unsupported("format spec on a symbolic integer")
        return self._text()

    def __str__(self):
        return self._text()

    def __repr__(self):
        return self._text() if CUR is not None else f"SymInt({self.name})"


def sym_int(name: str) -> SymInt:
    return SymInt(z3.Int(name), name)


class Name(str):
    """opaque literal name.  The payload is a marker, so every native concatenation carries it.
    Predicates are answered from the category (the contract's precondition on names);
    anything unmodelled raises Unsupported."""

    def __new__(cls, ident: str, category: str = "plain", stem: Optional["Name"] = None):
        m = ctx().table.new("name", ident)
        o = str.__new__(cls, m.text)
        o.ident = ident
        o.category = category
        o.stem = stem
        return o

    def _excl(self, what: str):
        ctx().excluded.append(f"{self.ident} {what}")

    def __eq__(self, o):
        if isinstance(o, Name):
            return o.ident == self.ident
        if isinstance(o, str):
            self._excl(f"!= {o!r}")
            return False
        return False

    def __ne__(self, o):
        return not self.__eq__(o)

    def __hash__(self):
        return hash(("Name", self.ident))

    def startswith(self, p, *a):
        if not a and type(p) is tuple and all(isinstance(x, str) for x in p):
            # str.startswith(tuple): any of them, tried in order
            for x in p:
                if self.startswith(x):
                    return True
            return False
        if a or not isinstance(p, str):
            raise Unsupported("Name.startswith form")
        if self.category == "at":          # a macro-like name: begins with '@'
            if p == "@":
                return True
            raise Unsupported("startswith on a macro name")
        if self.category.startswith("cap"):
            if p == "&":
                return True
            fam = self.category[4:]
            if fam:
                return ("&" + fam).startswith(p) or p == "&" + fam
            self._excl(f"does not start with {p!r}")
            return False
        self._excl(f"does not start with {p!r}")
        return False

    def endswith(self, s, *a):
        if a or not isinstance(s, str):
            raise Unsupported("Name.endswith form")
        if s == "h":
            return self.category in ("endh", "hexh")
        if self.category.startswith("cap"):
            raise Unsupported("endswith on a capture name")
        self._excl(f"does not end with {s!r}")
        return False

    def removesuffix(self, s):
        if s == "h" and self.category in ("endh", "hexh"):
            return self.stem
        raise Unsupported("Name.removesuffix")

    def __format__(self, spec):
        if spec:
            raise Unsupported("format spec on a name")
        return str.__str__(self)

    def __str__(self):
        return self

    def __repr__(self):
        return f"Name({self.ident})"

    def __bool__(self):
        return True      # a name is a non-empty text (precondition on names)

    def _unsup(self, *a, **k):
        raise Unsupported("unmodelled string operation on an opaque name")

    def __getitem__(self, k):
        # name[:-1] of a name known to end in 'h' (the branch `endswith("h")` was taken): its stem, like removesuffix("h")
        if isinstance(k, slice) and k.start is None and k.stop == -1 and k.step is None and self.category in ("endh", "hexh"):
            return self.stem
        raise Unsupported("unmodelled string operation on an opaque name")

    __len__ = __iter__ = _unsup
    __lt__ = __le__ = __gt__ = __ge__ = _unsup

    def __contains__(self, x):
        # the contracts' precondition on names: no separator, no regex metacharacter, no blank
        if isinstance(x, str) and type(x) is str and len(x) == 1 and x in ",|()[]{}?*+\\^$ \t\n":
            return False
        raise Unsupported("unmodelled string operation on an opaque name")
    split = lower = upper = strip = replace = find = index = isdigit = _unsup

    def removeprefix(self, p):
        # decided by the category like startswith: a name that does not begin with p is returned unchanged
        if self.startswith(p) is False:
            return self
        raise Unsupported("Name.removeprefix of a prefix the name may have")
    lstrip = rstrip = partition = rpartition = rsplit = count = _unsup
    capitalize = casefold = center = encode = expandtabs = format = format_map = isalnum = isalpha = isascii = isdecimal = _unsup
    isidentifier = islower = isnumeric = isprintable = isspace = istitle = isupper = ljust = rfind = rindex = rjust = _unsup
    splitlines = swapcase = title = translate = zfill = __mod__ = __mul__ = __rmul__ = _unsup

    def __add__(self, o):
        return str.__str__(self) + o

    def __radd__(self, o):
        return o + str.__str__(self)


class HexStem(Name):
    """the part of a `[0-9a-f]+h` name before the h"""


class SymSeq(list):
    """sequence of unknown length (>= min_len) given by ONE generic element; may only be consumed
    by the instrumented forms T1-T3 (comprehension, join, append-loop)."""

    def __init__(self, ident: str, elem: Any, min_len: int = 0, root: Optional[str] = None,
                 perm_of: Optional["SymSeq"] = None):
        super().__init__()
        self.ident = ident
        self.elem = elem
        self.min_len = min_len
        self.root = root or ident
        self.perm_of = perm_of

    def __bool__(self):
        if self.min_len > 0:
            return True
        return ctx().branch(z3.Int("len!" + self.root) > 0)

    def _unsup(self, *a, **k):
        raise Unsupported("native access to a symbolic sequence")

    __iter__ = __len__ = _unsup

    def __getitem__(self, k):
        if isinstance(k, slice) and k == slice(None, None, None):
            return self         # a full copy denotes the same sequence
        raise Unsupported("native access to a symbolic sequence")

    def copy(self):
        return self

    def __add__(self, o):
        # concatenation with a concrete list: the symbolic part is kept as one splice placeholder
        from .rt import Splice
        if isinstance(o, SymSeq):
            return [Splice(self), Splice(o)]
        if isinstance(o, list):
            return [Splice(self)] + o
        return NotImplemented

    def __radd__(self, o):
        from .rt import Splice
        if isinstance(o, list):
            return o + [Splice(self)]
        return NotImplemented

    def __contains__(self, x):
        # membership of a concrete string in a sequence of opaque names: decided by the generic element
        if isinstance(self.elem, Name) and isinstance(x, str) and not isinstance(x, Name):
            return self.elem == x
        if isinstance(self.elem, Name) and isinstance(x, Name):
            # some element equals x?  symbolic fact, the same one a search loop over the sequence decides
            return ctx().branch(z3.Bool(f"eq!{self.elem.ident}!{x.ident}"))
        raise Unsupported("membership test on a symbolic sequence")

    append = extend = insert = pop = count = sort = reverse = _unsup

    def index(self, x, *a):
        """list.index: position of the FIRST element equal to x, ValueError when there is none -- the search-loop rule"""
        if a:
            raise Unsupported("list.index with start/stop on a symbolic sequence")
        from .rt import NOTFOUND, SymEnum, search
        r = search(SymEnum(self, 0), lambda t: t[1] == x, lambda t: t[0])
        if r is NOTFOUND:
            raise ValueError(f"{x!r} is not in list")
        return r[0]

    def __eq__(self, o):
        return self is o

    def __ne__(self, o):
        return self is not o

    __hash__ = None

    def __repr__(self):
        return f"SymSeq({self.ident}, elem={self.elem!r}, min_len={self.min_len})"


class SymPerms:
    """itertools.permutations(seq): all orderings, each once (assumed library contract)"""

    def __init__(self, seq: SymSeq):
        self.seq = seq


def assume(cond):
    """precondition of the contract: restricts the inputs, never a path of the code"""
    c = ctx()
    if not c.sat(cond):
        raise Infeasible()
    c.pc.append(cond)


class HexStr(Name):
    """hexadecimal address text: category 'hex0x' = "0x" + digits, 'hex' = digits ([0-9a-f]+)"""

    def __new__(cls, ident: str, with_0x: bool):
        o = Name.__new__(cls, ident, "hex0x" if with_0x else "hex")
        o.with_0x = with_0x
        return o

    def startswith(self, p, *a):
        if p == "0x" and not a:
            return self.with_0x
        raise Unsupported("HexStr.startswith form")

    def __contains__(self, x):
        if isinstance(x, str) and len(x) == 1 and x not in "0123456789abcdefx":
            return False
        raise Unsupported("HexStr.__contains__ form")

    def __getitem__(self, k):
        if isinstance(k, slice) and k.start == 2 and k.stop is None and k.step is None and self.with_0x:
            return HexStem(self.ident, "stem")
        raise Unsupported("HexStr.__getitem__ form")

    def removeprefix(self, p):
        if p == "0x":
            return HexStem(self.ident, "stem") if self.with_0x else self
        raise Unsupported("HexStr.removeprefix form")


class StarOperand(Name):
    """operand text of an indirect branch: begins with '*'"""

    def __contains__(self, x):
        if x == "*":
            return True
        raise Unsupported("StarOperand.__contains__ form")


class SymName(Name):
    """generic element of a symbolic sequence of names: equality with another name is a symbolic fact"""

    def __eq__(self, o):
        if isinstance(o, Name) and not isinstance(o, SymName):
            import z3 as _z3
            return SymBool(_z3.Bool(f"eq!{self.ident}!{o.ident}"))
        if isinstance(o, SymName):
            return o.ident == self.ident
        return Name.__eq__(self, o)

    def __ne__(self, o):
        r = self.__eq__(o)
        return SymBool(__import__("z3").Not(r.t)) if isinstance(r, SymBool) else (not r)

    __hash__ = Name.__hash__
