"""Access to the real JASM classes (instrumented text of the current tree) + stub helpers."""
from __future__ import annotations

import importlib
from types import SimpleNamespace
from typing import Any, Dict, List, Optional

from . import grammar as G
from . import instrument, pyvc
from .pyvc import ctx

_NS: Optional[SimpleNamespace] = None

MODS = {
    "gd": "jasm.global_definitions",
    "abstract": "jasm.jasm_regex.tree_generators.pattern_node_abstract",
    "untyped": "jasm.jasm_regex.tree_generators.pattern_node_tmp_untyped",
    "builder": "jasm.jasm_regex.tree_generators.pattern_node_builder",
    "branch": "jasm.jasm_regex.tree_generators.pattern_node_implementations.node_branch_root",
    "times": "jasm.jasm_regex.tree_generators.pattern_node_implementations.time_type_builder",
    "mo": "jasm.jasm_regex.tree_generators.pattern_node_implementations.mnemonic_and_operand.mnemonic_and_operand",
    "deref": "jasm.jasm_regex.tree_generators.pattern_node_implementations.deref",
    "derefc": "jasm.jasm_regex.tree_generators.deref_classes",
    "cgi": "jasm.jasm_regex.tree_generators.capture_group_index",
    "cm": "jasm.jasm_regex.tree_generators.capture_manager",
    "sc": "jasm.jasm_regex.tree_generators.shared_context",
    "cg_inst": "jasm.jasm_regex.tree_generators.pattern_node_implementations.capture_group.capture_group_instruction",
    "cg_op": "jasm.jasm_regex.tree_generators.pattern_node_implementations.capture_group.capture_group_operand",
    "cg_reg": "jasm.jasm_regex.tree_generators.pattern_node_implementations.capture_group.capture_group_register",
    "ast_builder": "jasm.jasm_regex.tree_generators.pattern_node_type_builder.ast_builder",
    "cg_iface": "jasm.jasm_regex.tree_generators.pattern_node_type_builder.capture_group_interface",
    "cg_builders": "jasm.jasm_regex.tree_generators.pattern_node_type_builder.capture_group_builders",
    "sreg": "jasm.jasm_regex.tree_generators.pattern_node_type_builder.special_register_capture_group_type_builder",
    "y2r": "jasm.jasm_regex.yaml2regex",
    "mexp": "jasm.jasm_regex.macro_expander.macro_expander",
    "margs": "jasm.jasm_regex.macro_expander.macro_args_resolver",
    "amap": "jasm.jasm_regex.macro_expander.args_mapping_generator",
    "consumer": "jasm.consumer",
    "mobs": "jasm.matched_observers",
    "match": "jasm.match",
    "main": "jasm.main",
    "pargs": "jasm.parse_arguments",
    "logcfg": "jasm.logging_config",
    "observers": "jasm.stringify_asm.implementations.observers",
    "producer": "jasm.stringify_asm.implementations.composable_producer",
    "shell": "jasm.stringify_asm.implementations.shell_disassembler",
    "nulld": "jasm.stringify_asm.implementations.null_disassembler",
    "gnud": "jasm.stringify_asm.implementations.gnu_objdump.gnu_objdump_disassembler",
    "gnup": "jasm.stringify_asm.implementations.gnu_objdump.gnu_objdump_parser_manual",
    "lp": "jasm.stringify_asm.implementations.gnu_objdump.asm_manual_parser_w_regex",
}


_SNAP: Dict[str, Dict[str, Any]] = {}          # module name -> {global name: object}
_SNAP_CLS: Dict[Any, Dict[str, Any]] = {}       # class -> {attribute name: raw descriptor}


def _snapshot_new_modules() -> None:
    """remember the pristine globals and class attributes (raw descriptors) of every jasm module when it is first imported"""
    import sys
    for mn, m in list(sys.modules.items()):
        if (mn == "jasm" or mn.startswith("jasm.")) and m is not None and mn not in _SNAP:
            g = dict(vars(m))
            _SNAP[mn] = g
            for v in g.values():
                if isinstance(v, type) and getattr(v, "__module__", "") == mn and v not in _SNAP_CLS:
                    _SNAP_CLS[v] = dict(vars(v))


def restore_all() -> None:
    """undo every patch a contract scenario may have left on the jasm modules / classes (stubs installed for modular
    verification must never leak into the next scenario of the same worker process)"""
    import sys
    for mn, g in _SNAP.items():
        m = sys.modules.get(mn)
        if m is None:
            continue
        for k, v in g.items():
            if k.startswith("__") and k.endswith("__"):
                continue
            if vars(m).get(k, None) is not v:
                setattr(m, k, v)
    for cls, attrs in _SNAP_CLS.items():
        cur = vars(cls)
        for k, v in attrs.items():
            if k in ("__dict__", "__weakref__", "__doc__", "__module__", "__abstractmethods__", "_abc_impl"):
                continue
            if cur.get(k, None) is not v:
                try:
                    setattr(cls, k, v)
                except (AttributeError, TypeError):
                    pass
        for k in [k for k in cur if k not in attrs and not (k.startswith("__") and k.endswith("__")) and k != "_abc_impl"]:
            try:
                delattr(cls, k)
            except (AttributeError, TypeError):
                pass


class _Lazy:
    def __getattr__(self, name):
        if name in MODS:
            m = importlib.import_module(MODS[name])
            setattr(self, name, m)
            _snapshot_new_modules()
            return m
        raise AttributeError(name)


J = _Lazy()
_installed = False


def ensure():
    global _installed
    if not _installed:
        instrument.install()
        _installed = True
    return J


def source_hash(modkey: str) -> str:
    import hashlib
    m = getattr(J, modkey)
    return hashlib.sha256(open(m.__file__, "rb").read()).hexdigest()[:16]


# --------------------------------------------------------------------------- stubs
_stub_cls = None


def child_stub(cid: str, level: str, levels: Dict[str, str], name: Any = None, times: Any = None, nkids: Any = None):
    """a typed child node under contract: get_regex() returns an opaque closed regex of `level`"""
    global _stub_cls
    ensure()
    if _stub_cls is None:
        class ChildStub(J.abstract.PatternNode):
            def __init__(self, cid, level, name, times=None, nkids=None):
                self.cid, self.level = cid, level
                self.name = name if name is not None else "stub-" + cid
                # a typed node keeps the name, the repetition and the (typed) children of the node it was built from
                self.times = times if times is not None else J.gd.TimesType(1, 1)
                self.children = None if not nkids else [ChildStub(f"{cid}.c{i}", level, None) for i in range(nkids)]
                self.parent = None
                self.shared_context = None
                self.calls = 0

            def get_regex(self):
                self.calls += 1
                t = ctx().table
                return t.new("copen", self.cid + "<", of=self.cid).text + t.new("cclose", self.cid + ">", of=self.cid).text

            def render(self, c):
                return f"stub({self.cid})"
        _stub_cls = ChildStub
    levels[cid] = level
    return _stub_cls(cid, level, name, times, nkids)


def child_text(cid: str) -> str:
    t = ctx().table
    return t.new("copen", cid + "<", of=cid).text + t.new("cclose", cid + ">", of=cid).text


def node_data(name, times, children, shared_context=None):
    return J.abstract.PatternNodeData(name=name, times=times, children=children, parent=None,
                                      shared_context=shared_context)


def set_flags(fm: bool, fo: bool):
    """the real singleton, loaded through the real loader"""
    J.gd.JASMConfig.get_instance().load_config({"mnemonics-full-match": fm, "operands-full-match": fo})
