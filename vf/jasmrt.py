"""Access to the real JASM classes (instrumented text of the current tree) + stub helpers."""
from __future__ import annotations

import importlib
from types import SimpleNamespace
from typing import Any, Dict, List, Optional

from . import grammar as G
from . import instrument, pyvc
from .pyvc import ctx

_NS: Optional[SimpleNamespace] = None

MODS = {
    "gd": "jasm.global_definitions",
    "abstract": "jasm.jasm_regex.tree_generators.pattern_node_abstract",
    "untyped": "jasm.jasm_regex.tree_generators.pattern_node_tmp_untyped",
    "builder": "jasm.jasm_regex.tree_generators.pattern_node_builder",
    "branch": "jasm.jasm_regex.tree_generators.pattern_node_implementations.node_branch_root",
    "times": "jasm.jasm_regex.tree_generators.pattern_node_implementations.time_type_builder",
    "mo": "jasm.jasm_regex.tree_generators.pattern_node_implementations.mnemonic_and_operand.mnemonic_and_operand",
    "deref": "jasm.jasm_regex.tree_generators.pattern_node_implementations.deref",
    "derefc": "jasm.jasm_regex.tree_generators.deref_classes",
    "cgi": "jasm.jasm_regex.tree_generators.capture_group_index",
    "cm": "jasm.jasm_regex.tree_generators.capture_manager",
    "sc": "jasm.jasm_regex.tree_generators.shared_context",
    "cg_inst": "jasm.jasm_regex.tree_generators.pattern_node_implementations.capture_group.capture_group_instruction",
    "cg_op": "jasm.jasm_regex.tree_generators.pattern_node_implementations.capture_group.capture_group_operand",
    "cg_reg": "jasm.jasm_regex.tree_generators.pattern_node_implementations.capture_group.capture_group_register",
    "ast_builder": "jasm.jasm_regex.tree_generators.pattern_node_type_builder.ast_builder",
    "cg_iface": "jasm.jasm_regex.tree_generators.pattern_node_type_builder.capture_group_interface",
    "cg_builders": "jasm.jasm_regex.tree_generators.pattern_node_type_builder.capture_group_builders",
    "sreg": "jasm.jasm_regex.tree_generators.pattern_node_type_builder.special_register_capture_group_type_builder",
    "y2r": "jasm.jasm_regex.yaml2regex",
    "mexp": "jasm.jasm_regex.macro_expander.macro_expander",
    "margs": "jasm.jasm_regex.macro_expander.macro_args_resolver",
    "amap": "jasm.jasm_regex.macro_expander.args_mapping_generator",
    "consumer": "jasm.consumer",
    "mobs": "jasm.matched_observers",
    "match": "jasm.match",
    "main": "jasm.main",
    "pargs": "jasm.parse_arguments",
    "logcfg": "jasm.logging_config",
    "observers": "jasm.stringify_asm.implementations.observers",
    "producer": "jasm.stringify_asm.implementations.composable_producer",
    "shell": "jasm.stringify_asm.implementations.shell_disassembler",
    "nulld": "jasm.stringify_asm.implementations.null_disassembler",
    "gnud": "jasm.stringify_asm.implementations.gnu_objdump.gnu_objdump_disassembler",
    "gnup": "jasm.stringify_asm.implementations.gnu_objdump.gnu_objdump_parser_manual",
    "lp": "jasm.stringify_asm.implementations.gnu_objdump.asm_manual_parser_w_regex",
}


_SNAP: Dict[str, Dict[str, Any]] = {}          # module name -> {global name: object}
_SNAP_CLS: Dict[Any, Dict[str, Any]] = {}       # class -> {attribute name: raw descriptor}


def _snapshot_new_modules() -> None:
    """remember the pristine globals and class attributes (raw descriptors) of every jasm module when it is first imported"""
    import sys
    for mn, m in list(sys.modules.items()):
        if (mn == "jasm" or mn.startswith("jasm.")) and m is not None and mn not in _SNAP:
            g = dict(vars(m))
            _SNAP[mn] = g
            for v in g.values():
                if isinstance(v, type) and getattr(v, "__module__", "") == mn and v not in _SNAP_CLS:
                    _SNAP_CLS[v] = dict(vars(v))


def restore_all() -> None:
    """undo every patch a contract scenario may have left on the jasm modules / classes (stubs installed for modular
    verification must never leak into the next scenario of the same worker process)"""
    import sys
    for mn, g in _SNAP.items():
        m = sys.modules.get(mn)
        if m is None:
            continue
        for k, v in g.items():
            if k.startswith("__") and k.endswith("__"):
                continue
            if vars(m).get(k, None) is not v:
                setattr(m, k, v)
    for cls, attrs in _SNAP_CLS.items():
        cur = vars(cls)
        for k, v in attrs.items():
            if k in ("__dict__", "__weakref__", "__doc__", "__module__", "__abstractmethods__", "_abc_impl"):
                continue
            if cur.get(k, None) is not v:
                try:
                    setattr(cls, k, v)
                except (AttributeError, TypeError):
                    pass
        for k in [k for k in cur if k not in attrs and not (k.startswith("__") and k.endswith("__")) and k != "_abc_impl"]:
            try:
                delattr(cls, k)
            except (AttributeError, TypeError):
                pass


MOVED_NOTES: List[str] = []
_DEFS: Optional[Dict[str, List[str]]] = None


def _definitions() -> Dict[str, List[str]]:
    """top-level class / function name -> modules of the tree under check that define it (static scan, no import)"""
    global _DEFS
    if _DEFS is None:
        import os
        from . import alpha
        src = os.path.join(instrument.repo_root(), "src")
        _DEFS = {}
        for rel, m in alpha.scan_tree(src)["modules"].items():
            mod = rel[:-3].replace(os.sep, ".")
            if mod.endswith(".__init__"):
                mod = mod[:-9]
            for n in list(m["classes"]) + list(m["functions"]):
                _DEFS.setdefault(n, []).append(mod)
    return _DEFS


class _ModProxy:
    """a jasm module as the contracts address it.  A class or function that has been MOVED to another module of the tree (and is
    not re-exported from its old module) is looked up where it is defined now -- when exactly one module defines that name."""

    def __init__(self, mod):
        object.__setattr__(self, "_m", mod)

    def __getattr__(self, n):
        m = object.__getattribute__(self, "_m")
        try:
            return getattr(m, n)
        except AttributeError:
            from . import alpha
            ren, _ = alpha.renames_for(__import__("os").path.join(instrument.repo_root(), "src"))
            inv = {o: nw for nw, o in ren.items()}
            cands = _definitions().get(inv.get(n, n), [])
            if len(cands) == 1 and cands[0] != m.__name__:
                other = importlib.import_module(cands[0])
                _snapshot_new_modules()
                note = f"{n} is read from {cands[0]} (moved out of {m.__name__})"
                if note not in MOVED_NOTES:
                    MOVED_NOTES.append(note)
                return getattr(other, n)
            raise

    def __setattr__(self, n, v):
        setattr(object.__getattribute__(self, "_m"), n, v)

    def __delattr__(self, n):
        delattr(object.__getattribute__(self, "_m"), n)

    def __repr__(self):
        return f"<contract view of {object.__getattribute__(self, '_m').__name__}>"


class _Lazy:
    def __getattr__(self, name):
        if name in MODS:
            m = _ModProxy(importlib.import_module(MODS[name]))
            setattr(self, name, m)
            _snapshot_new_modules()
            return m
        raise AttributeError(name)


J = _Lazy()
_installed = False


def ensure():
    global _installed
    if not _installed:
        instrument.install()
        _installed = True
    return J


def source_hash(modkey: str) -> str:
    import hashlib
    m = getattr(J, modkey)
    return hashlib.sha256(open(m.__file__, "rb").read()).hexdigest()[:16]


# --------------------------------------------------------------------------- stubs
_stub_cls = None


def child_stub(cid: str, level: str, levels: Dict[str, str], name: Any = None, times: Any = None, nkids: Any = None):
    """a typed child node under contract: get_regex() returns an opaque closed regex of `level`"""
    global _stub_cls
    ensure()
    if _stub_cls is None:
        class ChildStub(J.abstract.PatternNode):
            def __init__(self, cid, level, name, times=None, nkids=None):
                self.cid, self.level = cid, level
                self.name = name if name is not None else "stub-" + cid
                # a typed node keeps the name, the repetition and the (typed) children of the node it was built from
                self.times = times if times is not None else J.gd.TimesType(1, 1)
                self.children = None if not nkids else [ChildStub(f"{cid}.c{i}", level, None) for i in range(nkids)]
                self.parent = None
                self.shared_context = None
                self.calls = 0

            def get_regex(self):
                self.calls += 1
                t = ctx().table
                return t.new("copen", self.cid + "<", of=self.cid).text + t.new("cclose", self.cid + ">", of=self.cid).text

            def render(self, c):
                return f"stub({self.cid})"
        _stub_cls = ChildStub
    levels[cid] = level
    return _stub_cls(cid, level, name, times, nkids)


def child_text(cid: str) -> str:
    t = ctx().table
    return t.new("copen", cid + "<", of=cid).text + t.new("cclose", cid + ">", of=cid).text


def node_data(name, times, children, shared_context=None):
    return J.abstract.PatternNodeData(name=name, times=times, children=children, parent=None,
                                      shared_context=shared_context)


def set_flags(fm: bool, fo: bool):
    """the real singleton, loaded through the real loader"""
    J.gd.JASMConfig.get_instance().load_config({"mnemonics-full-match": fm, "operands-full-match": fo})


# --------------------------------------------------------------------------- a function wherever it lives now
def holders_of(name: str, modkeys: List[str]) -> List[Any]:
    """the objects (module proxies / classes) of the given jasm modules that carry a callable attribute `name`: a helper may be a
    static method of a class in one tree and a module-level function in another"""
    out: List[Any] = []
    for mk in modkeys:
        m = getattr(J, mk)
        real = object.__getattribute__(m, "_m")
        if callable(vars(real).get(name)):
            out.append(m)
        for v in list(vars(real).values()):
            if isinstance(v, type) and getattr(v, "__module__", "") == real.__name__ and name in vars(v):
                out.append(v)
    return out


def find_callable(name: str, modkeys: List[str]):
    hs = holders_of(name, modkeys)
    if not hs:
        raise pyvc.Unsupported(f"the contract does not fit the tree: no function named {name} in {modkeys}")
    return getattr(hs[0], name)


def patch_all(name: str, stub, modkeys: List[str]) -> None:
    """install `stub` under `name` in every holder (as a staticmethod on classes); undone by restore_all() after the scenario"""
    hs = holders_of(name, modkeys)
    if not hs:
        raise pyvc.Unsupported(f"the contract does not fit the tree: no function named {name} in {modkeys}")
    for h in hs:
        setattr(h, name, staticmethod(stub) if isinstance(h, type) else stub)


class NullLog:
    """stand-in for the jasm logger inside a scenario: every logging call is a no-op (what is logged is not what is done);
    nothing is formatted, so symbolic arguments are never rendered"""

    def isEnabledFor(self, level):
        return False

    def getEffectiveLevel(self):
        return 100

    def __getattr__(self, name):
        if name.startswith("__"):
            raise AttributeError(name)
        return lambda *a, **k: None
