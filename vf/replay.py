"""From a refuted obligation to a replayable input (DESIGN 4.2).

1. the witness word over the extended alphabet is concretised: name letters -> fresh literal
   names, child letters -> a minimal concrete child (one item + the text it matches), the
   partial stream is completed to a well-formed one;
2. the rule + instruction list are run through the REAL compiler and consumer in a subprocess
   (vf.replay_runner, un-instrumented sources of $JASM_REPO);
3. the oracle (oracle/den.py) says what the property demands; a disagreement is a confirmed
   failing input.  If the direct concretisation shows none, a small enumeration around the
   witness vocabulary is tried (same oracle).  If that finds nothing either the violation is
   still reported, marked no-failing-input-found.
"""
from __future__ import annotations

import hashlib
import itertools
import json
import os
import random
import subprocess
import sys
from typing import Any, Dict, List, Optional, Sequence, Tuple

ROOT = os.path.dirname(os.path.dirname(os.path.abspath(__file__)))
sys.path.insert(0, ROOT)
from oracle import den as OR  # noqa: E402


def repo() -> str:
    return os.environ.get("JASM_REPO", "/repo")


class HarnessError(Exception):
    """the harness's own call of the public API does not fit the tree under check: undecided, never a violation"""


def run_real(jobs: Any, timeout: int = 300) -> Any:
    env = dict(os.environ)
    env["PYTHONPATH"] = os.path.join(repo(), "src")
    env["PYTHONDONTWRITEBYTECODE"] = "1"
    from vf import alpha
    env = alpha.env_for(os.path.join(repo(), "src"), env)
    py = "/venv/bin/python" if os.path.exists("/venv/bin/python") else sys.executable
    p = subprocess.run([py, os.path.join(ROOT, "vf", "replay_runner.py")], input=json.dumps(jobs), text=True,
                       capture_output=True, env=env, timeout=timeout, cwd="/tmp")
    if p.returncode == 4:
        raise HarnessError(p.stderr[-600:])
    if p.returncode != 0:
        raise RuntimeError("replay runner failed: " + p.stderr[-2000:])
    return json.loads(p.stdout)


# --------------------------------------------------------------------------- stream helpers
def complete_stream(s: str) -> str:
    """append the shortest text that makes s a well-formed stream"""
    last = s.rsplit("|", 1)[-1] if "|" in s else s
    if last == "":
        return s
    if "::" not in last:
        if last.endswith(":"):
            return s + ":x,,|"
        return s + "::x,,|"
    body = last.split("::", 1)[1]
    if body == "":
        return s + "x,,|"
    if "," not in body:
        return s + ",,|"
    if body.endswith(",") and body.count(",") >= 2:
        return s + "|"
    return s + ",|"


def parse_stream(s: str) -> Optional[List[Tuple[str, str, List[str]]]]:
    recs = []
    if s and not s.endswith("|"):
        return None
    for r in s.split("|")[:-1]:
        if "::" not in r:
            return None
        a, body = r.split("::", 1)
        if not a or any(c not in "0123456789abcdef" for c in a):
            return None
        parts = body.split(",")
        if len(parts) < 3 or parts[-1] != "":
            return None
        mn, fields = parts[0], parts[1:-1]
        if not mn or "::" in body:
            return None
        recs.append((a, mn, fields))
    return recs


def insts_of(recs):
    return [[a, m, ([] if f == [""] else list(f))] for (a, m, f) in recs]


# --------------------------------------------------------------------------- concretisation
class Conc:
    """concrete instance of a node scenario"""

    def __init__(self, rp: Dict[str, Any]):
        self.rp = rp
        self.kind = rp.get("kind")
        self.level = rp.get("level", "INST")
        self.names: Dict[str, str] = {}
        self.child_items: Dict[str, Any] = {}
        self.child_text: Dict[str, str] = {}
        self.fm = bool(rp.get("fm", False))
        self.fo = bool(rp.get("fo", False))

    def name(self, ident: str) -> str:
        if ident not in self.names:
            base = {"w": "qqw", "v": "qqv"}.get(ident, "qq" + "".join(c for c in ident if c.isalnum()))
            if self.rp.get("cat") == "endh" and ident == "v":
                base = "qqvh"
            if self.rp.get("cat") == "hexh" and ident == "v":
                base = "1fh"
            if ident == "vstem":
                base = "1f"
            self.names[ident] = base
        return self.names[ident]

    def child(self, cid: str, level: str):
        if cid not in self.child_items:
            k = len(self.child_items) + 1
            if level == "INST":
                self.child_items[cid] = f"zc{k}"
                self.child_text[cid] = f"{k}::zc{k},,|"
            elif level == "OPER":
                self.child_items[cid] = f"zo{k}"
                self.child_text[cid] = f"zo{k},"
            else:
                self.child_items[cid] = f"zd{k}"
                self.child_text[cid] = f"zd{k}"
        return self.child_items[cid]

    def times(self):
        t = self.rp.get("times", "one")
        if t == "one":
            return None
        if t == "sym":
            m = self.rp.get("model", "")
            vals = {}
            for part in m.split(","):
                if "=" in part:
                    k, v = part.strip().split("=", 1)
                    try:
                        vals[k.strip()] = int(v)
                    except ValueError:
                        pass
            a, b = vals.get("m", 2), vals.get("n", 3)
            return {"min": a, "max": b}
        a, b = eval(t) if isinstance(t, str) else t
        return {"min": a, "max": b}

    def with_times(self, key: str, body: Any) -> Any:
        t = self.times()
        d = {key: body}
        if t is not None:
            if body is None:
                d = {key: {"times": t}}
            else:
                d["times"] = t
        elif body is None:
            return key
        return d

    def node_yaml(self) -> Tuple[Any, List[str]]:
        """(yaml item, ordered child ids)"""
        rp = self.rp
        lvl = self.level
        if self.kind == "operator":
            cs = rp["children"]
            ids = {"k1": ["c1"], "k2": ["c1", "c2"], "k3": ["c1", "c2", "c3"], "seq": ["c1", "c2"],
                   "k2same": ["c1", "c1"], "k3same": ["c1", "c2", "c1"]}[cs]
            kids = [self.child(c, lvl) for c in ids]
            return self.with_times(rp["op"], kids), ids
        if self.kind == "mnemonic":
            cs = rp["children"]
            n = {"none": 0, "empty": 0, "times-only": 0, "k1": 1, "k2": 2, "k3": 3, "seq": 2}[cs]
            ids = [f"c{j}" for j in range(1, n + 1)]
            kids = [self.child(c, "OPER") for c in ids]
            return self.with_times(self.name("w"), kids or None), ids
        if self.kind == "deref":
            fields = rp.get("fields")
            if not fields:
                short = {"main_reg": "a", "register_multiplier": "b", "constant_multiplier": "c", "constant_offset": "k"}
                fields = {}
                for f in rp["present"]:
                    self.child_items[short[f]] = "zd" + short[f]
                    self.child_text[short[f]] = "zd" + short[f]
                    self.names["n" + short[f]] = "zn" + short[f]
                    fields[f] = "zd" + short[f]
            return self.with_times("$deref", dict(fields)), []
        if self.kind == "operand":
            nm: Any = self.name("v")
            if rp.get("cat") == "int":
                nm = 7
            if str(rp.get("cat", "")).startswith(("lit:", "hexc:")):
                nm = rp["cat"].split(":", 1)[1]          # a concrete representative: the name itself
            return nm, []
        raise KeyError(self.kind)

    def rule(self, context: bool = False) -> Dict[str, Any]:
        item, _ids = self.node_yaml()
        if self.level == "INST":
            pat = ["zpre", item, "zpost"] if context else [item]
        elif self.level == "OPER":
            pat = [{"zzm": (["opre", item, "opost"] if context else [item])}]
        else:
            pat = [{"zzm": [{"$deref": {"main_reg": item}}]}]
        cfg = {"mnemonics-full-match": self.fm, "operands-full-match": self.fo}
        return {"config": cfg, "pattern": pat}

    def letter_text(self, x: Any) -> str:
        if isinstance(x, str):
            return x
        k, ident = x["kind"], x["ident"]
        if k == "name":
            return self.name(ident)
        if k in ("assert", "capopen", "capclose"):
            return ""
        if k == "digits":
            return "7"
        if k == "child":
            if ident.startswith("any:"):
                self.node_yaml()
                return self.child_text["c1"]
            self.node_yaml()
            return self.child_text.get(ident, "")
        if k == "atom":
            self.node_yaml()
            ids = sorted(self.child_text)
            if "π(" in ident:
                ids = list(reversed(ids))
            return "".join(self.child_text[c] for c in ids)
        return ""

    def stream(self, word: Sequence[Any]) -> str:
        self.node_yaml()
        body = "".join(self.letter_text(x) for x in word if x != "§")
        if self.level == "INST":
            return complete_stream(body)
        if self.level == "OPER":
            return complete_stream("0::zzm," + body)
        return complete_stream("0::zzm,[" + body)


# --------------------------------------------------------------------------- comparison with the oracle
def compare(rule: Dict[str, Any], recs, real: Dict[str, Any]) -> Optional[str]:
    """None if the real result agrees with the reference semantics, else a description"""
    cfg = rule.get("config", {}) or {}
    sem = OR.Sem(bool(cfg.get("mnemonics-full-match", False)), bool(cfg.get("operands-full-match", False)))
    pattern = rule["pattern"]
    if "error" in real:
        return f"real code raised {real['error']}"
    stream = real.get("stream", "")
    if stream != OR.stream_of(recs):
        return f"stream differs from the encoding of the instruction list: {stream!r}"
    # record boundaries
    bounds = [0]
    for r in recs:
        bounds.append(bounds[-1] + len(OR.stream_of([r])))
    allm = set(sem.matches(pattern, recs))
    pos = 0   # oracle scan position (record index)
    expect_found = any(j > i for (i, j) in allm)
    spans = real.get("spans", [])
    # what the consumer reported must be the leftmost non-overlapping scan of the compiled rule (T-regex reference)
    if real.get("addr_list") is not None and list(real["addr_list"]) != [stream[a:b] for (a, b) in spans]:
        return (f"the reported match list {real['addr_list']!r:.300} is not the left-to-right non-overlapping scan of the compiled rule "
                f"over the stream ({[stream[a:b] for (a, b) in spans]!r:.300})")
    if bool(spans) != expect_found:
        return f"verdict: real={'found' if spans else 'not found'} reference={'found' if expect_found else 'not found'}"
    for (s, e) in spans:
        if s not in bounds or e not in bounds:
            return f"reported match [{s},{e}) = {stream[s:e]!r} is not a whole number of instruction records"
        i, j = bounds.index(s), bounds.index(e)
        if (i, j) not in allm:
            return f"reported match covering records [{i},{j}) is not a match of the pattern by the reference semantics"
        # leftmost: no earlier start from pos
        for i2 in range(pos, i):
            if any(j2 > i2 for (i3, j2) in allm if i3 == i2):
                return f"a match starting at record {i2} was skipped (reported next match starts at record {i})"
        pos = j if j > i else i + 1
    for i2 in range(pos, len(recs)):
        if any(j2 > i2 for (i3, j2) in allm if i3 == i2):
            return f"a match starting at record {i2} after the last reported match was not reported"
    return None


def neighbourhood(conc: Conc, rule: Dict[str, Any], seed: int = 0, limit: int = 400):
    """small streams over the witness vocabulary"""
    rnd = random.Random(seed)
    conc.node_yaml()
    names = list(conc.names.values()) or ["qqw"]
    mns = list(dict.fromkeys(["zzm", "nop", "zpre", "zpost"] + names + [v for v in conc.child_items.values() if isinstance(v, str) and v.startswith("zc")]))
    flds = list(dict.fromkeys(["", "x", "opre", "opost"] + names + [n + "x" for n in names] + ["x" + n for n in names]
                               + [v for v in conc.child_items.values() if isinstance(v, str) and not v.startswith("zc")]))
    out = []
    for _ in range(limit):
        n = rnd.choice([1, 1, 2, 2, 3, 4])
        recs = []
        for k in range(n):
            mn = rnd.choice(mns)
            nf = rnd.choice([1, 1, 2, 3])
            recs.append((format(16 + k, "x"), mn, [rnd.choice(flds) for _ in range(nf)]))
        out.append(recs)
    return out


def confirm(ob: Dict[str, Any]) -> Tuple[Optional[Dict[str, Any]], str]:
    """try to produce a confirmed failing input for a refuted obligation"""
    rp = ob.get("replay") or {}
    if rp.get("kind") == "fault":
        # the obligation itself was decided by running the real entry point on this input
        return {"fault_job": rp["job"], "real_outcome": ob.get("detail", ""), "expected": rp["job"].get("expect"),
                "found_by": "fault injection through MasterOfPuppets"}, "the real entry point did not raise"
    if rp.get("kind") == "call":
        # a concrete call of a real function with the expected result
        job = {"kind": "call", "target": rp["target"], "args": rp.get("args", []), "kwargs": rp.get("kwargs", {})}
        r = run_real(job)
        if (("error" not in r) if rp.get("expect") == "<raises>" else (r != {"result": rp.get("expect")})):
            return {"call": job, "real": r, "expected": rp.get("expect"), "found_by": "concrete representative"}, \
                f"{rp['target']} returned {r} where {rp.get('expect')!r} is required"
        return None, "the un-instrumented function returns the expected value on this input"
    if rp.get("kind") == "line":
        # a concrete listing line against the independent decoder (instruction lines) / "no instruction, no failure" (other lines)
        from oracle import objdump_model as OM_
        r = run_real({"kind": "parse", "lines": [rp["line"]]})["lines"][0]
        exp = OM_.decode_line(rp["line"]) if rp.get("instruction", True) else None
        bad = "error" in r or (exp is not None and r.get("inst") != [exp[0], exp[1], exp[2]]) or (exp is None and "inst" in r)
        if bad:
            return {"line": rp["line"], "real": r, "expected": list(exp) if exp else "no instruction, no failure", "found_by": "concrete line"}, \
                "the un-instrumented parser disagrees with the reference decoder on this line"
        return None, "the un-instrumented parser agrees with the reference decoder on this line"
    if rp.get("kind") not in ("operator", "mnemonic", "operand", "deref"):
        return None, "no concretiser for this obligation kind"
    if ob.get("detail", "").startswith("counter-model"):
        rp = dict(rp, model=ob.get("witness", ""))
    conc = Conc(rp)
    try:
        rule = conc.rule()
    except Exception as e:
        return None, f"concretisation failed: {e}"
    cands = []
    word = rp.get("word")
    if word is not None:
        s = conc.stream(word)
        recs = parse_stream(s)
        if recs is not None:
            cands.append((rule, recs, "witness"))
    for r in neighbourhood(conc, rule):
        cands.append((rule, r, "bounded-search"))
    try:
        rule2 = conc.rule(context=True)
        for r in neighbourhood(conc, rule2, seed=1):
            cands.append((rule2, r, "bounded-search (node between neighbours)"))
    except Exception:
        pass
    try:
        # listings planted from the rule itself (occurrences, near misses), and the node followed by a capture
        # definition and its reuse (group numbering)
        from vf import sweeps
        rnd = random.Random(7)
        rule3 = conc.rule()
        if conc.level == "INST":
            rule3 = dict(rule3, pattern=list(rule3["pattern"]) + [{"push": ["&r"]}, {"pop": ["&r"]}])
        for ru in (rule, rule3):
            for _ in range(150):
                cands.append((ru, sweeps.gen_records(rnd, ru), "bounded-search (listing planted from the rule)"))
    except Exception:
        pass
    jobs = [{"rule": ru, "insts": insts_of(r), "mode": "all"} for (ru, r, _h) in cands]
    try:
        res = run_real(jobs)
    except Exception as e:
        return None, f"replay runner: {e}"
    for (ru, recs, how), r in zip(cands, res):
        why = compare(ru, recs, r)
        if why:
            return {"rule": ru, "instructions": insts_of(recs), "stream": OR.stream_of(recs), "real": r,
                    "disagreement": why, "found_by": how}, why
    return None, f"{len(cands)} concrete inputs around the witness agree with the reference semantics"


def write(prop: str, ob: Dict[str, Any]) -> Tuple[str, bool]:
    h = hashlib.sha256((ob["name"] + ob.get("witness", "")).encode()).hexdigest()[:10]
    d = os.path.join(ROOT, "replay", prop)
    os.makedirs(d, exist_ok=True)
    path = os.path.join(d, f"{ob['family']}-{h}.json")
    try:
        conf, why = confirm(ob)
    except Exception as e:  # never let the replay machinery hide the violation
        conf, why = None, f"replay machinery error: {e}"
    doc = {"property": prop, "obligation": ob["name"], "function": ob["func"], "family": ob["family"],
           "statement": ob["statement"], "verifier_output": ob.get("detail", ""), "witness": ob.get("witness", ""),
           "replay_info": ob.get("replay"), "confirmed_input": conf, "note": why,
           "repo": repo()}
    with open(path, "w") as f:
        json.dump(doc, f, indent=1, default=str)
    return path, conf is not None


def write_concrete(prop: str, v: Dict[str, Any]) -> str:
    h = hashlib.sha256(json.dumps(v, sort_keys=True, default=str).encode()).hexdigest()[:10]
    d = os.path.join(ROOT, "replay", prop)
    os.makedirs(d, exist_ok=True)
    path = os.path.join(d, f"bounded-{h}.json")
    with open(path, "w") as f:
        json.dump(dict(v, property=prop, found_by="bounded", repo=repo()), f, indent=1, default=str)
    return path


def rerun(prop: str, path: str) -> int:
    doc = json.load(open(path))
    ci = doc.get("confirmed_input") or doc.get("input")
    if not ci:
        print(f"replay file names obligation {doc.get('obligation')} ; no concrete input recorded")
        print(doc.get("verifier_output", ""))
        print(f"VIOLATION property={prop} replay={path} no-failing-input-found")
        return 1
    if "fault_job" in ci:
        env = dict(os.environ)
        env["PYTHONPATH"] = os.path.join(repo(), "src")
        from vf import alpha
        env = alpha.env_for(os.path.join(repo(), "src"), env)
        p = subprocess.run(["/venv/bin/python", os.path.join(ROOT, "vf", "fault_runner.py")], input=json.dumps([ci["fault_job"]]), text=True,
                           capture_output=True, env=env, cwd="/tmp")
        out = json.loads(p.stdout)[0]["outcome"] if p.returncode == 0 else p.stderr[-400:]
        print(json.dumps({"outcome": out, "expected": ci.get("expected")}))
        bad = not (out.startswith("raised:") if ci.get("expected") == "raise" else out == "returned:True")
        if bad:
            print(f"VIOLATION property={prop} replay={path}")
            return 1
        print("no disagreement on this tree")
        return 0
    if "call" in ci:
        r = run_real(ci["call"])
        print(json.dumps({"real": r, "expected": ci.get("expected")}))
        if (("error" not in r) if ci.get("expected") == "<raises>" else (r != {"result": ci.get("expected")})):
            print(f"VIOLATION property={prop} replay={path}")
            return 1
        print("no disagreement on this tree")
        return 0
    if "rule" in ci and "instructions" in ci:
        r = run_real({"rule": ci["rule"], "insts": ci["instructions"], "mode": "all"})
        recs = OR.records_from_instructions(ci["instructions"])
        why = compare(ci["rule"], recs, r)
        print(json.dumps({"real": r, "disagreement": why}, indent=1))
        if why:
            print(f"VIOLATION property={prop} replay={path}")
            return 1
        print("no disagreement on this tree")
        return 0
    from vf import sweeps
    return sweeps.rerun(prop, doc, path)
