"""Runs the REAL public entry point (un-instrumented sources of $JASM_REPO) on fault-injected inputs.
stdin: JSON list of jobs {"id", "rule_text" | "rule", "listing" (text|None), "binary": bool, "input_missing": bool,
"unreadable": bool, "macros_text": [..], "path_objdump": bool}; stdout: JSON list of {"id","outcome": "raised:<type>"|"returned:<repr>"}"""
import json, os, sys, tempfile, logging, subprocess, shutil


def _alpha_hook():
    if os.environ.get("JASM_ALPHA"):
        sys.path.insert(0, os.path.dirname(os.path.dirname(os.path.abspath(__file__))))
        from vf import alpha
        alpha.hook_from_env()


def main():
    _alpha_hook()
    logging.disable(logging.CRITICAL)
    jobs = json.load(sys.stdin)
    out = []
    from jasm.global_definitions import MatchConfig, InputFileType, MatchingReturnMode
    from jasm.match import MasterOfPuppets
    for j in jobs:
        with tempfile.TemporaryDirectory() as t:
            rp = os.path.join(t, "rule.yaml")
            if j.get("rule_text") is not None:
                open(rp, "w").write(j["rule_text"])
            if j.get("rule_missing"):
                rp = os.path.join(t, "nope.yaml")
            ip = os.path.join(t, "input.bin" if j.get("binary") else "input.s")
            if j.get("listing") is not None and not j.get("input_missing"):
                if j.get("binary"):
                    # assemble the listing's source with gcc when a real object is wanted, else garbage bytes
                    if j.get("garbage"):
                        open(ip, "wb").write(b"this is not an object file\n")
                    else:
                        src = os.path.join(t, "a.s")
                        open(src, "w").write(j["listing"])
                        subprocess.run(["gcc", "-c", src, "-o", ip], check=True, capture_output=True)
                else:
                    open(ip, "w").write(j["listing"])
            macros = []
            for k, mt in enumerate(j.get("macros_text") or []):
                mp = os.path.join(t, f"m{k}.yaml")
                if mt is not None:
                    open(mp, "w").write(mt)
                macros.append(mp)
            env_path = os.environ.get("PATH", "")
            if j.get("no_objdump"):
                os.environ["PATH"] = t
            try:
                cfg = MatchConfig(pattern_pathstr=rp, input_file=ip,
                                  input_file_type=InputFileType.binary if j.get("binary") else InputFileType.assembly,
                                  return_mode=MatchingReturnMode.bool, macros=macros or None)
                r = MasterOfPuppets(cfg).perform_matching()
                out.append({"id": j["id"], "outcome": f"returned:{r!r}"})
            except BaseException as e:
                tb, last = e.__traceback__, None
                while tb is not None:
                    last, tb = tb, tb.tb_next
                mine = last is not None and os.path.abspath(last.tb_frame.f_code.co_filename) == os.path.abspath(__file__)
                if mine and isinstance(e, (AttributeError, TypeError, NameError)):
                    # the harness's own call does not fit this tree (renamed entry point, changed signature): nothing learned
                    out.append({"id": j["id"], "outcome": f"harness:{type(e).__name__}: {e}"})
                else:
                    out.append({"id": j["id"], "outcome": f"raised:{type(e).__name__}"})
            finally:
                os.environ["PATH"] = env_path
    json.dump(out, sys.stdout)


if __name__ == "__main__":
    main()
