"""Marker table: every symbolic part of a string built by the code under verification is
represented *inside ordinary Python strings* by a private-use code point (repeated `width`
times).  CPython's own concatenation / f-string / join code therefore carries symbolic parts
through unchanged; rx and sstr re-parse the markers afterwards.

Two payload variants (different code points AND different widths) are used by the
double-run guard: a native operation that looked at a payload (len, index, compare)
makes the two runs diverge.
"""
from dataclasses import dataclass, field
from typing import Any, Dict, List, Optional

PUA_LO, PUA_HI = 0xE000, 0xF8FF


def is_marker_char(ch: str) -> bool:
    return PUA_LO <= ord(ch) <= PUA_HI


@dataclass
class Marker:
    kind: str          # name | copen | cclose | int | big | var | fld
    ident: str         # stable identity, independent of the payload variant
    info: Dict[str, Any] = field(default_factory=dict)
    text: str = ""     # payload text of this marker in the current variant


class MarkerTable:
    def __init__(self, variant: int = 0):
        self.variant = variant
        self.base = PUA_LO + (0x0 if variant == 0 else 0x800)
        self.width = 1 if variant == 0 else 3
        self.by_char: Dict[str, Marker] = {}
        self.by_ident: Dict[str, Marker] = {}
        self.next = 0

    def new(self, kind: str, ident: str, **info) -> Marker:
        if ident in self.by_ident:
            return self.by_ident[ident]
        ch = chr(self.base + self.next)
        self.next += 1
        if self.base + self.next > PUA_HI:
            raise RuntimeError("marker space exhausted")
        m = Marker(kind, ident, info, ch * self.width)
        self.by_char[ch] = m
        self.by_ident[ident] = m
        return m

    def lookup(self, ch: str) -> Optional[Marker]:
        return self.by_char.get(ch)

    def tokens(self, text: str) -> List[Any]:
        """Split text into plain characters and Marker objects; a torn marker (width mismatch)
        raises TornMarker -- evidence that a native op sliced through a symbolic part."""
        out: List[Any] = []
        i = 0
        text = str.__str__(text)      # proxies that subclass str forbid len()/indexing
        n = len(text)
        while i < n:
            ch = text[i]
            if is_marker_char(ch):
                m = self.by_char.get(ch)
                if m is None:
                    raise TornMarker(f"unknown marker U+{ord(ch):04X}")
                w = len(m.text)
                if text[i:i + w] != m.text:
                    raise TornMarker(f"torn marker {m.ident}")
                out.append(m)
                i += w
            else:
                out.append(ch)
                i += 1
        return out

    def show(self, text: str) -> str:
        """Human readable rendering (markers by identity)."""
        try:
            toks = self.tokens(text)
        except TornMarker:
            return repr(text)
        return "".join(t if isinstance(t, str) else f"‹{t.ident}›" for t in toks)


class TornMarker(Exception):
    pass
