"""Obligations, scenarios and the symbolic-run helper shared by all contract files."""
from __future__ import annotations

import os
import sys
import time
import traceback
from dataclasses import asdict, dataclass, field
from typing import Any, Callable, Dict, List, Optional, Sequence, Tuple

import z3

from . import grammar as G
from . import pyvc, rx, vc
from .markers import MarkerTable
from .rx import RxSyntax, Unsupported

PROVED, REFUTED, UNDECIDED = "proved", "refuted", "undecided"


class CheckerError(Exception):
    """internal inconsistency of the verifier (exit 3)"""


@dataclass
class Ob:
    name: str                  # unique id: <function>:<scenario>:<family>[:k]
    func: str                  # qualified name of the real function under contract
    family: str                # DEN END ENTRY START CLOSED LOOP CAPS POST EXC INV FRAME ...
    statement: str             # human readable VC
    status: str
    props: List[str] = field(default_factory=list)
    backend: str = ""
    seconds: float = 0.0
    witness: str = ""          # canonical counterexample (word / model)
    detail: str = ""           # verifier output for the failed obligation
    replay: Optional[Dict[str, Any]] = None   # how to concretise the witness for the real code
    bounded: Optional[str] = None              # set when the obligation is a bounded stand-in

    def to_json(self):
        return asdict(self)


@dataclass
class Scenario:
    ident: str
    func: str                         # function under contract (qualified name)
    props: List[str]
    run: Callable[[], List[Ob]]
    inlined: List[str] = field(default_factory=list)
    doc: str = ""


REGISTRY: List[Scenario] = []


def worst_per_name(obs: Sequence["Ob"]) -> List["Ob"]:
    """obligations recorded once per explored path / payload variant carry the same name: keep ONE per name, the worst outcome
    (refuted before undecided before proved) -- a loop invariant that fails on one path fails"""
    rank = {REFUTED: 0, UNDECIDED: 1}
    best: Dict[str, Ob] = {}
    order: List[str] = []
    for o in obs:
        if o.name not in best:
            best[o.name] = o
            order.append(o.name)
        elif rank.get(o.status, 2) < rank.get(best[o.name].status, 2):
            best[o.name] = o
    return [best[n] for n in order]


def scenario(ident: str, func: str, props: Sequence[str], inlined: Sequence[str] = (), doc: str = ""):
    def deco(f):
        REGISTRY.append(Scenario(ident, func, list(props), f, list(inlined), doc))
        return f
    return deco


# --------------------------------------------------------------------------- symbolic runs
@dataclass
class SymRun:
    paths: List[pyvc.Path]
    ctx: pyvc.Ctx
    shown: List[str]


def _render(ctx: pyvc.Ctx, v: Any) -> str:
    if isinstance(v, pyvc.Name):
        return f"‹{v.ident}›"
    if isinstance(v, pyvc.SymBool):
        return f"SymBool({v.t})"
    if isinstance(v, str):
        return ctx.table.show(v)
    if isinstance(v, BaseException):
        return f"{type(v).__name__}"
    if isinstance(v, pyvc.SymSeq):
        return f"SymSeq({v.ident},{_render(ctx, v.elem)})"
    if isinstance(v, (list, tuple)):
        return "[" + ",".join(_render(ctx, x) for x in v) + "]"
    if isinstance(v, pyvc.SymInt):
        return f"int:{v.name}"
    if hasattr(v, "render"):
        return v.render(ctx)
    return f"<{type(v).__name__}>" if not isinstance(v, (int, bool, type(None), float)) else repr(v)


def sym_run(fn: Callable[[], Any]) -> SymRun:
    """explore fn under both payload variants; the decision trees and rendered outcomes must
    coincide (soundness guard against natively leaked payloads)."""
    p0, c0 = pyvc.explore(fn, 0)
    p1, c1 = pyvc.explore(fn, 1)
    s0 = [(p.decisions, p.kind, _render(c0, p.value)) for p in p0]
    s1 = [(p.decisions, p.kind, _render(c1, p.value)) for p in p1]
    if s0 != s1:
        raise CheckerError("payload variants diverge (a native operation inspected a proxy payload):\n"
                           f"  variant0={s0}\n  variant1={s1}")
    return SymRun(p0, c0, [x[2] for x in s0])


def z3_valid(pc: Sequence[Any], claim: Any, timeout_ms: int = 20000) -> Tuple[str, str]:
    """pc => claim ?  returns (status, model-text)"""
    s = z3.Solver()
    s.set("timeout", timeout_ms)
    s.add(*pc)
    s.add(z3.Not(claim))
    r = s.check()
    if r == z3.unsat:
        return PROVED, ""
    if r == z3.sat:
        m = s.model()
        return REFUTED, ", ".join(f"{d.name()}={m[d]}" for d in sorted(m.decls(), key=lambda d: d.name())
                                  if not d.name().startswith("choice!"))
    return UNDECIDED, "z3: " + s.reason_unknown()


def z3_sat(pc: Sequence[Any]) -> bool:
    s = z3.Solver()
    s.set("timeout", 20000)
    s.add(*pc)
    return s.check() == z3.sat


def timed(f, *a, **k):
    t = time.time()
    try:
        r = f(*a, **k)
        return r, time.time() - t, None
    except (Unsupported,) as e:
        return None, time.time() - t, e


# --------------------------------------------------------------------------- regex obligations
def parse_code(text: str, table: MarkerTable):
    return rx.parse(text, table)


def norm(ast: Any, levels: Dict[str, str]) -> Any:
    return rx.tloop(rx.strip_groups(vc.abstract_big(ast, levels)))


def sequence_safe(ast: Any) -> Optional[str]:
    """CLOSED (shape part): the text may be concatenated and quantified by a caller"""
    if isinstance(ast, rx.Alt):
        return "top-level alternation (an alternative would merge with the caller's neighbours)"
    return None


def lang_ob(name: str, func: str, family: str, statement: str, fn: Callable[[], Optional[vc.Witness]],
            props: Sequence[str], replay: Optional[Dict[str, Any]] = None) -> Ob:
    t = time.time()
    try:
        w = fn()
    except Unsupported as e:
        return Ob(name, func, family, statement, UNDECIDED, list(props), "rxeq", time.time() - t, "", f"unsupported: {e}")
    except RxSyntax as e:
        return Ob(name, func, family, statement, REFUTED, list(props), "rx", time.time() - t, f"syntax:{e}",
                  f"the produced text is not a regular expression: {e}", replay)
    dt = time.time() - t
    if w is None:
        return Ob(name, func, family, statement, PROVED, list(props), "rxeq", dt)
    return Ob(name, func, family, statement, REFUTED, list(props), "rxeq", dt, rx.word_str(w.word),
              f"distinguishing word {w}", dict(replay or {}, word=_word_json(w.word), side=w.side))


def _word_json(w):
    return [x if isinstance(x, str) else {"kind": x.kind, "ident": x.ident} for x in w]


def simple_ob(name, func, family, statement, ok: Optional[bool], props, detail="", witness="", backend="pyvc",
              seconds=0.0, replay=None) -> Ob:
    st = PROVED if ok else (UNDECIDED if ok is None else REFUTED)
    return Ob(name, func, family, statement, st, list(props), backend, seconds, witness if st != PROVED else "",
              detail if st != PROVED else "", replay if st == REFUTED else None)


def z3_ob(name, func, family, statement, pc, claim, props, replay=None) -> Ob:
    t = time.time()
    st, model = z3_valid(pc, claim)
    return Ob(name, func, family, statement, st, list(props), "z3", time.time() - t,
              model if st == REFUTED else "", ("counter-model: " + model) if st == REFUTED else model,
              dict(replay or {}, model=model) if st == REFUTED else None)
