"""rx: regex text (with markers) -> AST -> NFA; language VCs over an extended alphabet.

Dialect: what JASM emits and what users may inject through names: literals, escapes,
classes, (?:..) (..) (?!..) (?=..), \\k back-references, ? * + {m} {m,} {m,n} (bounds may be
symbolic integer markers), alternation, ^ $ (kept as zero-width symbols for symre).
Anything else raises Unsupported (-> obligation undecided, never passed).
"""
from __future__ import annotations

import itertools
from collections import deque
from dataclasses import dataclass, field
from typing import Any, Callable, Dict, FrozenSet, Iterable, List, Optional, Sequence, Tuple

from .markers import Marker, MarkerTable, TornMarker, is_marker_char


class Unsupported(Exception):
    pass


class RxSyntax(Exception):
    """the text is not a regular expression the real engine would accept"""


# --------------------------------------------------------------------------- AST
@dataclass(frozen=True)
class Set:
    chars: FrozenSet[str]
    neg: bool = False

    def has(self, ch: str) -> bool:
        return (ch in self.chars) != self.neg


@dataclass(frozen=True)
class Sym:
    """opaque letter of the extended alphabet"""
    kind: str      # name | child | atom | assert | capopen | capclose | bref | bol | eol
    ident: str


@dataclass(frozen=True)
class Cat:
    items: Tuple[Any, ...]


@dataclass(frozen=True)
class Alt:
    items: Tuple[Any, ...]


@dataclass(frozen=True)
class Rep:
    node: Any
    lo: Any            # int or symbolic term (z3 ArithRef wrapped in SymBound)
    hi: Any            # int | None (unbounded) | SymBound
    lazy: bool = False


@dataclass(frozen=True)
class Grp:
    node: Any
    cap: Optional[int] = None


@dataclass(frozen=True)
class Look:
    neg: bool
    node: Any


@dataclass(frozen=True)
class Big:
    """big operator over a symbolic sequence: sep.join(template(x) for x in seq)"""
    ident: str
    sep: str                 # "" or "|"
    template: Any            # AST with Sym('child', generic-id) standing for the element
    seq: str                 # identity of the sequence (incl. permutation tag)
    info: Any = None


@dataclass(frozen=True)
class Avoid:
    """L(node) minus every word that contains `word` as a substring (free text that does not mention a keyword)"""
    node: Any
    word: str


class SymBound:
    """symbolic quantifier bound (hashable wrapper around a z3 term / SymInt)"""

    def __init__(self, ident: str, term: Any):
        self.ident, self.term = ident, term

    def __eq__(self, o):
        return isinstance(o, SymBound) and o.ident == self.ident

    def __hash__(self):
        return hash(("SymBound", self.ident))

    def __repr__(self):
        return f"<{self.ident}>"


EPS = Cat(())
DIGITS = frozenset("0123456789")
WORD = frozenset("abcdefghijklmnopqrstuvwxyzABCDEFGHIJKLMNOPQRSTUVWXYZ0123456789_")
SPACE = frozenset(" \t\n\r\f\v")
META = set("\\^$.|?*+()[]{}")


def show(n: Any) -> str:
    """readable rendering of an AST"""
    if isinstance(n, Set):
        cs = "".join(sorted(n.chars))
        if not n.neg and len(n.chars) == 1:
            c = cs
            return "\\" + c if c in META else c
        return "[" + ("^" if n.neg else "") + cs.replace("\\", "\\\\").replace("]", "\\]") + "]"
    if isinstance(n, Sym):
        return f"‹{n.kind}:{n.ident}›"
    if isinstance(n, Cat):
        return "".join(show(x) for x in n.items)
    if isinstance(n, Alt):
        return "|".join(show(x) for x in n.items)
    if isinstance(n, Rep):
        hi = "" if n.hi is None else n.hi
        return f"{show(n.node)}{{{n.lo},{hi}}}"
    if isinstance(n, Grp):
        return ("(" if n.cap else "(?:") + show(n.node) + ")"
    if isinstance(n, Look):
        return ("(?!" if n.neg else "(?=") + show(n.node) + ")"
    if isinstance(n, Avoid):
        return f"({show(n.node)} without {n.word!r})"
    if isinstance(n, Big):
        return f"‹big {n.sep!r}.join({show(n.template)} for x in {n.seq})›"
    return repr(n)


# --------------------------------------------------------------------------- parser
@dataclass
class ParseResult:
    ast: Any
    ncaps: int
    issues: List[str]            # CLOSED violations found while parsing
    qbounds: List[Tuple[Any, Any]]   # symbolic (lo, hi) pairs that must satisfy 0<=lo<=hi
    children: List[str]          # child idents in text order
    caps_order: List[Tuple[str, Any]]  # ('cap', k) / ('child', ident) / ('big', ident) in text order


class Parser:
    def __init__(self, text: str, table: Optional[MarkerTable] = None):
        self.table = table or MarkerTable()
        try:
            self.toks = self.table.tokens(text)
        except TornMarker as e:
            raise RxSyntax(str(e))
        self.i = 0
        self.ncaps = 0
        self.issues: List[str] = []
        self.qbounds: List[Tuple[Any, Any]] = []
        self.children: List[str] = []
        self.order: List[Tuple[str, Any]] = []

    # -- token helpers
    def peek(self, k: int = 0):
        j = self.i + k
        return self.toks[j] if j < len(self.toks) else None

    def eat(self):
        t = self.toks[self.i]
        self.i += 1
        return t

    def at(self, s: str) -> bool:
        for k, c in enumerate(s):
            if self.peek(k) != c:
                return False
        return True

    def parse(self) -> ParseResult:
        ast = self.alt(top=True)
        if self.i != len(self.toks):
            raise RxSyntax(f"unbalanced parenthesis at token {self.i}")
        return ParseResult(ast, self.ncaps, self.issues, self.qbounds, self.children, self.order)

    def alt(self, top: bool = False):
        branches = [self.seq()]
        while self.peek() == "|":
            self.eat()
            branches.append(self.seq())
        # a big alternation must be the sole content of its group
        for b in branches:
            items = b.items if isinstance(b, Cat) else (b,)
            for it in items:
                if isinstance(it, Big) and it.sep == "|" and not (len(branches) == 1 and len(items) == 1):
                    self.issues.append(
                        f"CLOSED: alternation over {it.seq} is not enclosed in its own group "
                        f"(its first/last alternative merges with neighbours)")
        if len(branches) == 1:
            return branches[0]
        return Alt(tuple(branches))

    def seq(self):
        items: List[Any] = []
        while True:
            t = self.peek()
            if t is None or t == "|" or t == ")":
                break
            atom = self.atom()
            atom = self.quant(atom)
            items.append(atom)
        if len(items) == 1:
            return items[0]
        return Cat(tuple(items))

    def atom(self):
        t = self.eat()
        if isinstance(t, Marker):
            return self.marker_atom(t)
        if t == "(":
            return self.group()
        if t == "[":
            return self.cls()
        if t == "\\":
            return self.escape()
        if t == ".":
            return Set(frozenset("\n"), True)
        if t == "^":
            return Sym("bol", "^")
        if t == "$":
            return Sym("eol", "$")
        if t in "*+?":
            raise RxSyntax("nothing to repeat")
        if t == "{":
            # a brace that does not follow an atom is a literal
            return Set(frozenset("{"))
        return Set(frozenset(t))

    def marker_atom(self, m: Marker):
        if m.kind == "name":
            return Sym("name", m.ident)
        if m.kind == "atom":
            self.order.append(("child", m.ident))
            return Sym("atom", m.ident)
        if m.kind == "sym":      # explicit letter of the extended alphabet (spec texts only)
            return Sym(m.info["skind"], m.info["sid"])
        if m.kind == "copen":
            nxt = self.peek()
            if isinstance(nxt, Marker) and nxt.kind == "cclose" and nxt.info.get("of") == m.info.get("of"):
                self.eat()
                cid = m.info["of"]
                self.children.append(cid)
                self.order.append(("child", cid))
                q = self.peek()
                if q in ("*", "+", "?") or (q == "{" and self.looks_like_quant()):
                    self.issues.append(
                        f"CLOSED: a quantifier is applied directly to child {cid} (binds only its last atom)")
                return Sym("child", cid)
            raise RxSyntax(f"child marker {m.ident} torn apart")
        if m.kind == "cclose":
            raise RxSyntax(f"child marker {m.ident} torn apart")
        if m.kind == "big":
            sub = Parser(m.info["template"], self.table)
            sub_res = sub.parse()
            if sub_res.ncaps:
                raise Unsupported("capturing group inside a join template")
            self.issues.extend(sub_res.issues)
            self.qbounds.extend(sub_res.qbounds)
            b = Big(m.ident, m.info["sep"], sub_res.ast, m.info["seq"], {"min_len": m.info.get("min_len", 0)})
            self.order.append(("big", b.ident))
            q = self.peek()
            if q in ("*", "+", "?") or (q == "{" and self.looks_like_quant()):
                self.issues.append(
                    f"CLOSED: a quantifier is applied directly to the join over {b.seq} (binds only its last element)")
            return b
        if m.kind == "int":
            # decimal text of a symbolic integer outside a quantifier: opaque digits
            return Sym("digits", m.ident)
        raise Unsupported(f"marker kind {m.kind} in regex text")

    def looks_like_quant(self) -> bool:
        """after '{' (at self.i): is this a {m}, {m,}, {,n}, {m,n} quantifier?"""
        j = self.i + 1
        seen_digit = False
        seen_comma = False
        while j < len(self.toks):
            t = self.toks[j]
            if isinstance(t, Marker) and t.kind == "int":
                seen_digit = True
            elif isinstance(t, str) and t.isdigit():
                seen_digit = True
            elif t == "," and not seen_comma:
                seen_comma = True
            elif t == "}":
                return seen_digit or seen_comma
            else:
                return False
            j += 1
        return False

    def group(self):
        cap = None
        if self.at("?:"):
            self.eat(); self.eat()
            node = self.alt()
            self.expect(")")
            return Grp(node, None)
        if self.at("?!") or self.at("?="):
            self.eat()
            neg = self.eat() == "!"
            node = self.alt()
            self.expect(")")
            return Look(neg, node)
        if self.peek() == "?":
            raise Unsupported("group extension (?" + str(self.peek(1)))
        self.ncaps += 1
        cap = self.ncaps
        self.order.append(("cap", cap))
        node = self.alt()
        self.expect(")")
        return Grp(node, cap)

    def expect(self, c: str):
        if self.peek() != c:
            raise RxSyntax(f"missing {c}")
        self.eat()

    def escape(self, in_class: bool = False):
        t = self.peek()
        if t is None:
            raise RxSyntax("bad escape at end")
        self.eat()
        if isinstance(t, Marker):
            if t.kind == "int":
                return Sym("bref", "sym:" + t.ident)
            raise RxSyntax("escape of a marker")
        if t == "d":
            return Set(DIGITS)
        if t == "D":
            return Set(DIGITS, True)
        if t == "w":
            return Set(WORD)
        if t == "W":
            return Set(WORD, True)
        if t == "s":
            return Set(SPACE)
        if t == "S":
            return Set(SPACE, True)
        if t == "t":
            return Set(frozenset("\t"))
        if t == "n":
            return Set(frozenset("\n"))
        if t == "r":
            return Set(frozenset("\r"))
        if t.isdigit() and not in_class:
            if t == "0":
                raise Unsupported("octal escape")
            num = t
            while isinstance(self.peek(), str) and self.peek().isdigit() and len(num) < 2:
                num += self.eat()
            return Sym("bref", num)
        if t.isalnum():
            raise Unsupported(f"escape \\{t}")
        return Set(frozenset(t))

    def cls(self):
        neg = False
        if self.peek() == "^":
            self.eat()
            neg = True
        chars: set = set()
        negsets: List[Set] = []
        first = True
        while True:
            t = self.peek()
            if t is None:
                raise RxSyntax("unterminated character set")
            if t == "]" and not first:
                self.eat()
                break
            first = False
            self.eat()
            if isinstance(t, Marker):
                raise Unsupported("marker inside a character class")
            if t == "\\":
                e = self.escape(in_class=True)
                if isinstance(e, Set) and not e.neg:
                    lo_set = e.chars
                    if len(lo_set) == 1 and self.peek() == "-" and self.peek(1) not in ("]", None):
                        lo = next(iter(lo_set))
                        self.eat()
                        hi = self.eat()
                        if hi == "\\":
                            he = self.escape(in_class=True)
                            hi = next(iter(he.chars))
                        chars.update(chr(c) for c in range(ord(lo), ord(hi) + 1))
                    else:
                        chars.update(lo_set)
                else:
                    raise Unsupported("negated escape inside class")
                continue
            if self.peek() == "-" and self.peek(1) not in ("]", None):
                self.eat()
                hi = self.eat()
                if isinstance(hi, Marker):
                    raise Unsupported("marker inside a character class")
                if hi == "\\":
                    he = self.escape(in_class=True)
                    hi = next(iter(he.chars))
                if ord(hi) < ord(t):
                    raise RxSyntax("bad character range")
                chars.update(chr(c) for c in range(ord(t), ord(hi) + 1))
            else:
                chars.add(t)
        return Set(frozenset(chars), neg)

    def quant(self, atom):
        while True:
            t = self.peek()
            if t == "*":
                self.eat(); lo, hi = 0, None
            elif t == "+":
                self.eat(); lo, hi = 1, None
            elif t == "?":
                self.eat(); lo, hi = 0, 1
            elif t == "{" and self.looks_like_quant():
                lo, hi = self.braces()
            else:
                return atom
            lazy = False
            if self.peek() == "?":
                self.eat(); lazy = True
            elif self.peek() == "+":
                raise Unsupported("possessive quantifier")
            if isinstance(atom, Sym) and atom.kind in ("bol", "eol"):
                raise RxSyntax("nothing to repeat")
            if isinstance(lo, SymBound) or isinstance(hi, SymBound):
                self.qbounds.append((lo, hi))
            else:
                if hi is not None and lo > hi:
                    raise RxSyntax("min repeat greater than max repeat")
            atom = Rep(atom, lo, hi, lazy)

    def braces(self):
        self.expect("{")

        def num():
            t = self.peek()
            if isinstance(t, Marker) and t.kind == "int":
                self.eat()
                return SymBound(t.ident, t.info.get("term"))
            s = ""
            while isinstance(self.peek(), str) and self.peek().isdigit():
                s += self.eat()
            return int(s) if s else None
        lo = num()
        if self.peek() == ",":
            self.eat()
            hi = num()
            self.expect("}")
            return (0 if lo is None else lo), hi
        self.expect("}")
        return lo, lo


def parse(text: str, table: Optional[MarkerTable] = None) -> ParseResult:
    return Parser(text, table).parse()


# --------------------------------------------------------------------------- AST utilities
def walk(n: Any):
    yield n
    if isinstance(n, (Cat, Alt)):
        for x in n.items:
            yield from walk(x)
    elif isinstance(n, (Rep, Grp, Look, Avoid)):
        yield from walk(n.node)
    elif isinstance(n, Big):
        yield from walk(n.template)


def strip_groups(n: Any) -> Any:
    """remove non-capturing groups and flatten (language-preserving normal form)"""
    if isinstance(n, Grp) and n.cap is None:
        return strip_groups(n.node)
    if isinstance(n, Grp):
        return Grp(strip_groups(n.node), n.cap)
    if isinstance(n, Cat):
        out: List[Any] = []
        for x in n.items:
            y = strip_groups(x)
            if isinstance(y, Cat):
                out.extend(y.items)
            else:
                out.append(y)
        return out[0] if len(out) == 1 else Cat(tuple(out))
    if isinstance(n, Alt):
        out = []
        for x in n.items:
            y = strip_groups(x)
            if isinstance(y, Alt):
                out.extend(y.items)
            else:
                out.append(y)
        return out[0] if len(out) == 1 else Alt(tuple(out))
    if isinstance(n, Rep):
        return Rep(strip_groups(n.node), n.lo, n.hi, n.lazy)
    if isinstance(n, Look):
        return Look(n.neg, strip_groups(n.node))
    if isinstance(n, Big):
        return Big(n.ident, n.sep, strip_groups(n.template), n.seq, n.info)
    return n


MAXREC = 256   # assumption A-len: a stream record has at most this many characters


def tloop(n: Any, maxrec: int = MAXREC) -> Any:
    """T-loop rewrite: X{lo,hi} with hi >= MAXREC and '|' not in X (X one character class)
    has the same match relation as X{lo,} on streams whose records are <= MAXREC characters
    (a run of non-'|' characters lies inside one record).  Loops that do not meet the side
    conditions (lower bound, or a class admitting '|') are kept bounded, so the language VCs
    see them exactly as written."""
    if isinstance(n, Rep):
        body = tloop(n.node, maxrec)
        if isinstance(n.hi, int) and n.hi >= maxrec:
            b = body.node if isinstance(body, Grp) and body.cap is None else body
            if isinstance(b, Set) and not b.has("|"):
                return Rep(body, n.lo, None, n.lazy)
        return Rep(body, n.lo, n.hi, n.lazy)
    if isinstance(n, Cat):
        return Cat(tuple(tloop(x, maxrec) for x in n.items))
    if isinstance(n, Alt):
        return Alt(tuple(tloop(x, maxrec) for x in n.items))
    if isinstance(n, Grp):
        return Grp(tloop(n.node, maxrec), n.cap)
    if isinstance(n, Look):
        return Look(n.neg, tloop(n.node, maxrec))
    if isinstance(n, Big):
        return Big(n.ident, n.sep, tloop(n.template, maxrec), n.seq, n.info)
    return n


def nullable(n: Any) -> bool:
    if isinstance(n, (Set,)):
        return False
    if isinstance(n, Sym):
        return n.kind in ("assert", "capopen", "capclose", "bol", "eol")
    if isinstance(n, Cat):
        return all(nullable(x) for x in n.items)
    if isinstance(n, Alt):
        return any(nullable(x) for x in n.items)
    if isinstance(n, Rep):
        return (isinstance(n.lo, int) and n.lo == 0) or nullable(n.node)
    if isinstance(n, Grp):
        return nullable(n.node)
    if isinstance(n, Look):
        return True
    if isinstance(n, Big):
        return False
    return False


# --------------------------------------------------------------------------- NFA
class NFA:
    def __init__(self):
        self.n = 0
        self.eps: Dict[int, List[int]] = {}
        self.tr: Dict[int, List[Tuple[Any, int]]] = {}
        self.start = 0
        self.final = 0
        self.sets: set = set()
        self.syms: set = set()

    def new(self) -> int:
        self.n += 1
        if self.n > 60000:
            raise Unsupported("automaton too large")
        return self.n - 1

    def e(self, a: int, b: int):
        self.eps.setdefault(a, []).append(b)

    def t(self, a: int, lab: Any, b: int):
        self.tr.setdefault(a, []).append((lab, b))
        if isinstance(lab, Set):
            self.sets.add(lab)
        else:
            self.syms.add(lab)


def canon(n: Any) -> str:
    return show(strip_groups(n))


def build_nfa(ast: Any, look_as_letter: bool = True) -> NFA:
    nfa = NFA()

    def go(r) -> Tuple[int, int]:
        if isinstance(r, Set):
            a, b = nfa.new(), nfa.new()
            nfa.t(a, r, b)
            return a, b
        if isinstance(r, Sym):
            a, b = nfa.new(), nfa.new()
            nfa.t(a, r, b)
            return a, b
        if isinstance(r, Cat):
            a = nfa.new()
            cur = a
            for x in r.items:
                s, e = go(x)
                nfa.e(cur, s)
                cur = e
            return a, cur
        if isinstance(r, Alt):
            a, b = nfa.new(), nfa.new()
            for x in r.items:
                s, e = go(x)
                nfa.e(a, s)
                nfa.e(e, b)
            return a, b
        if isinstance(r, Grp):
            if r.cap is None:
                return go(r.node)
            return go(Cat((Sym("capopen", str(r.cap)), r.node, Sym("capclose", str(r.cap)))))
        if isinstance(r, Look):
            return go(Sym("assert", ("!" if r.neg else "=") + canon(r.node)))
        if isinstance(r, Rep):
            lo, hi = r.lo, r.hi
            if isinstance(lo, SymBound) or isinstance(hi, SymBound):
                raise Unsupported("symbolic repetition bound inside an automaton VC")
            a = nfa.new()
            cur = a
            for _ in range(lo):
                s, e = go(r.node)
                nfa.e(cur, s)
                cur = e
            if hi is None:
                s, e = go(r.node)
                b = nfa.new()
                nfa.e(cur, s)
                nfa.e(e, s)
                nfa.e(e, b)
                nfa.e(cur, b)
                return a, b
            b = nfa.new()
            nfa.e(cur, b)
            for _ in range(hi - lo):
                s, e = go(r.node)
                nfa.e(cur, s)
                nfa.e(e, b)
                cur = e
            return a, b
        if isinstance(r, Avoid):
            return avoid_product(r)
        if isinstance(r, Big):
            raise Unsupported("big operator must be abstracted before automaton construction")
        raise Unsupported(f"node {type(r).__name__}")

    def avoid_product(r: Avoid) -> Tuple[int, int]:
        """product of the NFA of r.node with the KMP automaton of r.word (dead on a full occurrence)"""
        inner = build_nfa(r.node)
        w = r.word
        wchars = frozenset(w)

        def kstep(k: int, ch: str) -> int:
            t = w[:k] + ch
            while t and not w.startswith(t):
                t = t[1:]
            return len(t)
        ids: Dict[Tuple[int, int], int] = {}

        def sid(q: int, k: int) -> int:
            key = (q, k)
            if key not in ids:
                ids[key] = nfa.new()
            return ids[key]
        start = sid(inner.start, 0)
        end = nfa.new()
        work = [(inner.start, 0)]
        seen = {(inner.start, 0)}
        while work:
            q, k = work.pop()
            a = sid(q, k)
            if q == inner.final:
                nfa.e(a, end)
            for q2 in inner.eps.get(q, ()):
                nfa.e(a, sid(q2, k))
                if (q2, k) not in seen:
                    seen.add((q2, k)); work.append((q2, k))
            for lab, q2 in inner.tr.get(q, ()):
                if isinstance(lab, Sym):
                    nfa.t(a, lab, sid(q2, k))
                    if (q2, k) not in seen:
                        seen.add((q2, k)); work.append((q2, k))
                    continue
                # characters of the word individually, the others together
                for ch in wchars:
                    if lab.has(ch):
                        k2 = kstep(k, ch)
                        if k2 == len(w):
                            continue          # the word would be completed: dead
                        nfa.t(a, Set(frozenset(ch)), sid(q2, k2))
                        if (q2, k2) not in seen:
                            seen.add((q2, k2)); work.append((q2, k2))
                rest = Set(lab.chars | wchars, True) if lab.neg else Set(lab.chars - wchars)
                if rest.neg or rest.chars:
                    nfa.t(a, rest, sid(q2, 0))
                    if (q2, 0) not in seen:
                        seen.add((q2, 0)); work.append((q2, 0))
        return start, end

    s, f = go(ast)
    nfa.start, nfa.final = s, f
    return nfa


# --------------------------------------------------------------------------- letters / alphabets
# A letter is either a real character (str of length 1) or a Sym.

def alphabet_for(sets: Iterable[Set], syms: Iterable[Sym], extra_chars: str = "") -> List[Any]:
    """one representative per minterm of the character classes, plus every symbol"""
    sets = list(dict.fromkeys(sets))
    mentioned = set(extra_chars)
    for s in sets:
        mentioned |= s.chars
    # a character mentioned nowhere
    other = None
    for cand in "~@!ZQqz#&=;_":
        if cand not in mentioned:
            other = cand
            break
    if other is None:
        c = 0x100
        while chr(c) in mentioned:
            c += 1
        other = chr(c)
    sig: Dict[Tuple, str] = {}
    for ch in sorted(mentioned) + [other]:
        key = tuple(s.has(ch) for s in sets) + ((ch,) if ch in extra_chars else ())
        sig.setdefault(key, ch)
    letters: List[Any] = sorted(sig.values())
    letters.extend(sorted(set(syms), key=lambda s: (s.kind, s.ident)))
    return letters


STEP_BUDGET = int(__import__("os").environ.get("VERIF_AUTOMATON_BUDGET", "250000"))


class Lang:
    """on-the-fly determinised NFA"""

    def __init__(self, ast: Any = None, nfa: Optional[NFA] = None):
        self.nfa = nfa if nfa is not None else build_nfa(ast)
        self._cl: Dict[FrozenSet[int], FrozenSet[int]] = {}
        self._st: Dict[Tuple[FrozenSet[int], Any], FrozenSet[int]] = {}

    def closure(self, S: Iterable[int]) -> FrozenSet[int]:
        S = frozenset(S)
        r = self._cl.get(S)
        if r is not None:
            return r
        st = list(S)
        out = set(S)
        eps = self.nfa.eps
        while st:
            q = st.pop()
            for p in eps.get(q, ()):
                if p not in out:
                    out.add(p)
                    st.append(p)
        r = frozenset(out)
        self._cl[S] = r
        return r

    def init(self) -> FrozenSet[int]:
        return self.closure([self.nfa.start])

    def step(self, S: FrozenSet[int], letter: Any) -> FrozenSet[int]:
        key = (S, letter)
        r = self._st.get(key)
        if r is not None:
            return r
        nxt = []
        tr = self.nfa.tr
        if isinstance(letter, Sym):
            for q in S:
                for lab, b in tr.get(q, ()):
                    if lab == letter:
                        nxt.append(b)
        else:
            for q in S:
                for lab, b in tr.get(q, ()):
                    if isinstance(lab, Set) and lab.has(letter):
                        nxt.append(b)
        r = self.closure(nxt)
        self._st[key] = r
        if len(self._st) > STEP_BUDGET:
            # subset construction of bounded counters over overlapping classes can be exponential: give up on this obligation
            # (UNDECIDED) instead of exhausting memory / time
            raise Unsupported(f"automaton budget exceeded ({STEP_BUDGET} determinised transitions)")
        return r

    def acc(self, S: FrozenSet[int]) -> bool:
        return self.nfa.final in S

    def sets(self):
        return self.nfa.sets

    def syms(self):
        return self.nfa.syms


def word_str(w: Sequence[Any]) -> str:
    return "".join(x if isinstance(x, str) else f"‹{x.kind}:{x.ident}›" for x in w)


def accepts(lang: Lang, word: Sequence[Any]) -> bool:
    S = lang.init()
    for x in word:
        S = lang.step(S, x)
        if not S:
            return False
    return lang.acc(S)
