"""symre: Python `re` on structured strings via uniqueness of groups (DESIGN 2.4).

No backtracking engine is simulated.  For re.match(P, s) with s a structured string:
  1. EXIST / NOMATCH: decide on L(s) whether every instance has a prefix in L(P) / none has
     (otherwise the call forks, the language is not refined);
  2. a hypothesis for the group boundaries is read off ONE concrete instance run through CPython's
     own `re` (positions are mapped to structure positions of s);
  3. UNIQ: over the annotated language (group markers as letters) every decomposition of every
     instance puts the markers exactly at the hypothesised structure positions
     (L_A ∩ erase⁻¹(L(s)) ⊆ L_B).  One priority fact is used (T-greedy): a trailing greedy
     `(X+)` followed only by `.*` and `$` takes the maximal run of X.
If UNIQ fails the call is ambiguous -> Unsupported (obligation undecided), never a guess.
Assumed (T-re): CPython's `re` finds a match iff one exists and the groups it reports form a
decomposition that is one.
"""
from __future__ import annotations

import itertools
import re as _re
from typing import Any, Dict, List, Optional, Sequence, Tuple

from . import rx
from .markers import Marker, is_marker_char
from .pyvc import Unsupported, ctx
from .rx import Alt, Cat, Grp, Lang, Look, Rep, Set, Sym
from .sstr import ANY_ALL, SymStr, _alphabet, _lit_ast, _var_ast, _mast, sample, uniform

STATS = {"match": 0, "search": 0, "split": 0, "uniq_vcs": 0, "differential": 0}


class SymMatch:
    def __init__(self, s: SymStr, spans: Dict[int, Tuple[int, int]]):
        self.s = s
        self.spans = spans      # group -> (payload start, payload end)

    def group(self, k: int = 0):
        if k not in self.spans:
            raise IndexError("no such group")
        a, b = self.spans[k]
        return SymStr(self.s.payload[a:b])

    def __getitem__(self, k):
        return self.group(k)

    def __bool__(self):
        return True

    def span(self, k=0):
        raise Unsupported("span of a symbolic match")


def _strip_edge(ast: Any, kind: str, first: bool) -> Tuple[Any, bool]:
    """remove a ^ at the very beginning / a $ at the very end (also through non-capturing groups)"""
    if isinstance(ast, Sym) and ast.kind == kind:
        return Cat(()), True
    if isinstance(ast, Cat) and ast.items:
        i = 0 if first else len(ast.items) - 1
        sub, hit = _strip_edge(ast.items[i], kind, first)
        if hit:
            items = list(ast.items)
            items[i] = sub
            return Cat(tuple(x for x in items if not (isinstance(x, Cat) and not x.items))), True
        return ast, False
    if isinstance(ast, Grp) and ast.cap is None:
        sub, hit = _strip_edge(ast.node, kind, first)
        return (Grp(sub, None), True) if hit else (ast, False)
    return ast, False


def _strip_anchors(ast: Any) -> Tuple[Any, bool, bool]:
    """remove a leading ^ and a trailing $; returns (ast, had_bol, had_eol)"""
    ast, bol = _strip_edge(ast, "bol", True)
    ast, eol = _strip_edge(ast, "eol", False)
    ast, bol2 = _strip_edge(ast, "bol", True)     # (?:^...)$ : the ^ surfaces after the $ is gone
    bol = bol or bol2
    if not isinstance(ast, Cat):
        ast = Cat((ast,))
    for n in rx.walk(ast):
        if isinstance(n, Sym) and n.kind in ("bol", "eol"):
            raise Unsupported("anchor inside the pattern")
        if isinstance(n, Look):
            raise Unsupported("look-around inside a pattern matched against a structured string")
    return ast, bol, eol


def _tgreedy(ast: Any, eol: bool) -> Tuple[Any, Optional[Any]]:
    """T-greedy: a trailing greedy capture (X+) / (X*) followed by nothing, or only by `.*`, takes the
    maximal run of X.  Returns (core, tail): the pattern up to and including that group, and the
    constrained continuation  (?: [^X] .* )?  that replaces the unconstrained rest of the line."""
    if not isinstance(ast, Cat) or not ast.items:
        return ast, None
    items = list(ast.items)
    last = items[-1]
    if isinstance(last, Rep) and last.lo == 0 and last.hi is None and isinstance(last.node, Set) and last.node.neg \
            and last.node.chars <= frozenset("\n") and len(items) >= 2:
        gi = len(items) - 2
        rest: Any = last
    elif not eol:
        gi = len(items) - 1
        rest = Rep(ANY_ALL, 0, None)
    else:
        return ast, None
    g = items[gi]
    if isinstance(g, Grp) and g.cap and isinstance(g.node, Rep) and g.node.hi is None and isinstance(g.node.node, Set) and not g.node.lazy:
        X = g.node.node
        notx = Set(X.chars, not X.neg)
        return Cat(tuple(items[:gi + 1])), Rep(Cat((notx, rest)), 0, 1)
    return ast, None


def _annotate(ast: Any) -> Any:
    """capturing groups -> marker letters; also group 0 around the whole pattern"""
    return Cat((Sym("capopen", "0"), ast, Sym("capclose", "0")))


def _prefix_lang(ast: Any, eol: bool) -> Any:
    return ast if eol else Cat((ast, Rep(ANY_ALL, 0, None)))


def _structure_positions(s: SymStr) -> List[int]:
    """payload offsets that are structure positions: every offset inside/around literal text and the two
    ends of each variable marker"""
    toks = ctx().table.tokens(s.payload)
    pos = [0]
    off = 0
    for t in toks:
        off += len(t) if isinstance(t, str) else len(t.text)
        pos.append(off)
    return pos


def _instance(s: SymStr, variant: int) -> Tuple[str, List[Tuple[int, int]]]:
    """a concrete instance and, per token of the payload, its (start, end) in the instance"""
    toks = ctx().table.tokens(s.payload)
    out = ""
    spans = []
    for i, t in enumerate(toks):
        a = len(out)
        if isinstance(t, str):
            out += t
        else:
            out += sample(_mast(t), variant + (i % 2 if variant else 0))
        spans.append((a, len(out)))
    return out, spans


def _pattern_literals(pattern: str) -> List[str]:
    """maximal runs of plain literal characters of a pattern (candidate texts for variables)"""
    out, cur = [], ""
    i = 0
    while i < len(pattern):
        c = pattern[i]
        if c == "\\" and i + 1 < len(pattern):
            nxt = pattern[i + 1]
            if nxt in "tn":
                cur += {"t": "\t", "n": "\n"}[nxt]
            elif not nxt.isalnum():
                cur += nxt
            else:
                if cur:
                    out.append(cur)
                cur = ""
            i += 2
            continue
        if c in "^$.|?*+()[]{}":
            if c == "[":      # skip the class
                j = pattern.find("]", i + 2)
                i = (j if j > 0 else i) + 1
            else:
                i += 1
            if cur:
                out.append(cur)
            cur = ""
            continue
        cur += c
        i += 1
    if cur:
        out.append(cur)
    return [x for x in out if len(x) >= 2]


def _matching_instances(pattern: str, s: SymStr, fn):
    """concrete instances of s on which fn(pattern, .) matches, with their token spans"""
    import itertools
    from .rx import accepts
    toks = ctx().table.tokens(s.payload)
    vars_ = [t for t in toks if not isinstance(t, str)]
    lits = _pattern_literals(pattern)
    pools = []
    for t in vars_:
        a = _mast(t)
        L = Lang(a)
        pool = []
        for variant in (2, 1, 0):
            x = sample(a, variant)
            if x not in pool:
                pool.append(x)
        for l in lits:
            for cand in (l, l + sample(a, 1), l.lower(), sample(a, 1) + l, " " + l, "#" + l, " " + l + " x"):
                if cand not in pool and accepts(L, list(cand)):
                    pool.append(cand)
        pools.append(pool[:6])
    n = 0
    for combo in itertools.product(*pools):
        n += 1
        if n > 4000:
            return
        out, spans, k = "", [], 0
        for t in toks:
            a0 = len(out)
            if isinstance(t, str):
                out += t
            else:
                out += combo[k]
                k += 1
            spans.append((a0, len(out)))
        if fn(pattern, out) is not None:
            yield out, spans


def _hypothesis(pattern: str, s: SymStr, fn, ngroups: int) -> Optional[Dict[int, Tuple[int, int]]]:
    """group boundaries as payload offsets, read off concrete instances (two variants must agree)"""
    toks = ctx().table.tokens(s.payload)
    offs = []
    off = 0
    for t in toks:
        offs.append(off)
        off += len(t) if isinstance(t, str) else len(t.text)
    offs.append(off)
    hyp: Optional[Dict[int, Tuple[int, int]]] = None
    # prefer an instance in which no variable part is empty: then instance positions map to
    # structure positions unambiguously
    order = sorted((0, 1, 2), key=lambda v: -sum(1 for (a, b) in _instance(s, v)[1] if b > a))
    cands = [_instance(s, v) for v in order]
    if not any(fn(pattern, inst) is not None for inst, _sp in cands):
        # the plain samples do not match (the match depends on the instance): look for matching instances
        cands = list(itertools.islice(_matching_instances(pattern, s, fn), 3))
        cands.sort(key=lambda c: -sum(1 for (a, b) in c[1] if b > a))
        if not cands:
            return None
    for inst, spans in cands:
        m = fn(pattern, inst)
        STATS["differential"] += 1
        if m is None:
            continue
        bounds = [a for (a, _b) in spans] + [spans[-1][1] if spans else 0]

        def to_payload(p: int, is_end: bool) -> Optional[int]:
            # instance position -> payload offset (must be a token boundary)
            cands = [k for k, b in enumerate(bounds) if b == p]
            if not cands:
                return None
            # several tokens may be empty in this instance: boundaries coincide; prefer the outermost
            k = cands[0] if is_end else cands[-1]
            return offs[k]
        cur: Dict[int, Tuple[int, int]] = {}
        for g in range(0, ngroups + 1):
            a, b = m.span(g)
            if a < 0:
                raise Unsupported(f"group {g} does not participate")
            pa, pb = to_payload(a, False), to_payload(b, True)
            if pa is None or pb is None:
                raise Unsupported(f"group {g} boundary falls inside a variable part of the structured string")
            cur[g] = (pa, pb)
        if hyp is None:
            hyp = cur
        elif hyp != cur:
            # coinciding empty tokens may give different but equivalent offsets; keep the first, UNIQ decides
            pass
    return hyp


def _lb_ast(s: SymStr, hyp: Dict[int, Tuple[int, int]], eol: bool) -> Any:
    """the structured string with the group markers inserted at the hypothesised payload offsets"""
    toks = ctx().table.tokens(s.payload)
    events: Dict[int, List[Any]] = {}
    for g, (a, b) in sorted(hyp.items()):
        events.setdefault(a, []).append(("o", g))
        events.setdefault(b, []).append(("c", g))
    items: List[Any] = []
    off = 0

    def emit(at: int):
        ev = events.get(at, [])
        # closes of inner groups first, then opens (outer first): order by (kind, group)
        for kind, g in sorted([e for e in ev if e[0] == "c"], key=lambda e: -e[1]):
            items.append(Sym("capclose", str(g)))
        for kind, g in sorted([e for e in ev if e[0] == "o"], key=lambda e: e[1]):
            items.append(Sym("capopen", str(g)))
    emitted = set()
    for t in toks:
        if off not in emitted:
            emit(off)
            emitted.add(off)
        if isinstance(t, str):
            items.append(Set(frozenset(t)))
            off += 1
        else:
            items.append(_mast(t))
            off += len(t.text)
    if off not in emitted:
        emit(off)
    if not eol:
        pass
    return Cat(tuple(items))


def _uniq(pat_annot: Any, s: SymStr, lb: Any) -> Optional[str]:
    """L_A ∩ erase⁻¹(L(s)) ⊆ L_B ; returns a counterexample word or None"""
    STATS["uniq_vcs"] += 1
    A, G, B = Lang(pat_annot), Lang(s.ast()), Lang(lb)
    sets: List[Set] = []
    syms = set()
    for l in (A, G, B):
        sets.extend(l.sets())
        syms |= set(l.syms())
    letters = rx.alphabet_for(sets, syms)
    start = (A.init(), G.init(), B.init())
    seen = {start}
    from collections import deque
    dq = deque([(start, ())])
    while dq:
        (a, g, b), w = dq.popleft()
        if A.acc(a) and G.acc(g) and not B.acc(b):
            return rx.word_str(w)
        for x in letters:
            a2 = A.step(a, x)
            if not a2:
                continue
            g2 = g if isinstance(x, Sym) else G.step(g, x)
            if not g2:
                continue
            st = (a2, g2, B.step(b, x) if b else b)
            if st not in seen:
                seen.add(st)
                dq.append((st, w + (x,)))
    return None


def _match_core(pattern: str, s: SymStr, what: str) -> Optional[SymMatch]:
    pr = rx.parse(pattern)
    ast0, bol, eol = _strip_anchors(pr.ast)
    plain = rx.strip_groups(ast0)
    # does every / no instance have a prefix in L(P)?
    u = uniform(s.ast(), _prefix_lang(_drop_caps(plain), eol))
    if u is None:
        # depends on the instance: fork
        if ctx().choose(2, f"{what} {pattern!r}") == 1:
            return None
        # "matches" branch: the groups below are derived for the matching instances; UNIQ quantifies over them
    elif u is False:
        return None
    hyp = _hypothesis(pattern, s, _re.match, pr.ncaps)
    if hyp is None:
        raise Unsupported(f"{what} {pattern!r}: the sampled instance does not match although matching instances exist")
    core, tail = _tgreedy(rx.strip_groups(ast0), eol)
    annot = _annotate(core)
    if tail is not None:
        # group 0 of the real engine also covers the `.*` rest; its end is the end of the line when the
        # pattern ends in `.*$` -- the marker is placed after the constrained continuation in that case
        if eol or (isinstance(ast0, Cat) and ast0.items and isinstance(ast0.items[-1], Rep) and not isinstance(ast0.items[-1].node, Grp)
                   and ast0.items[-1] is not (core.items[-1] if isinstance(core, Cat) else None) and len(ast0.items) > len(core.items if isinstance(core, Cat) else [core])):
            annot = Cat((Sym("capopen", "0"), core, tail, Sym("capclose", "0")))
        else:
            annot = Cat((annot, tail))
    elif not eol:
        annot = Cat((annot, Rep(ANY_ALL, 0, None)))
    lb = _lb_ast(s, hyp, eol)
    lb = lb if eol else lb
    # L_B must also allow the text after the match
    if not eol:
        a0, b0 = hyp[0]
        if b0 != len(s.payload):
            pass      # the markers are inside lb already; remaining tokens follow
    cex = _uniq(annot, s, lb)
    if cex is not None:
        raise Unsupported(f"{what} {pattern!r}: group boundaries are not unique over all instances (e.g. {cex!r})")
    return SymMatch(s, hyp)


def _drop_caps(ast: Any) -> Any:
    if isinstance(ast, Grp):
        return _drop_caps(ast.node)
    if isinstance(ast, Cat):
        return Cat(tuple(_drop_caps(x) for x in ast.items))
    if isinstance(ast, Alt):
        return Alt(tuple(_drop_caps(x) for x in ast.items))
    if isinstance(ast, Rep):
        return Rep(_drop_caps(ast.node), ast.lo, ast.hi, ast.lazy)
    return ast


def match(pattern: str, s: SymStr, flags: int = 0) -> Optional[SymMatch]:
    STATS["match"] += 1
    if flags:
        raise Unsupported("re flags")
    return _match_core(pattern, s, "re.match")


def search(pattern: str, s: SymStr, flags: int = 0) -> Optional[SymMatch]:
    """leftmost match; supported when the pattern starts with a literal character that occurs only in
    the literal text of s"""
    STATS["search"] += 1
    if flags:
        raise Unsupported("re flags")
    pr = rx.parse(pattern)
    ast0, bol, eol = _strip_anchors(pr.ast)
    if bol:
        return _match_core(pattern, s, "re.search")
    first = ast0.items[0] if isinstance(ast0, Cat) and ast0.items else ast0
    if not (isinstance(first, Set) and not first.neg and len(first.chars) == 1):
        raise Unsupported("re.search with a pattern that does not start with a literal character")
    c = next(iter(first.chars))
    if not s._literal_positions_ok(c):
        raise Unsupported(f"re.search: a variable part may contain {c!r}")
    p = s.payload
    idx = [i for i, ch in enumerate(p) if ch == c]
    for i in idx:
        suffix = SymStr(p[i:])
        m = _match_core(pattern, suffix, "re.search@")
        if m is not None:
            return SymMatch(s, {g: (a + i, b + i) for g, (a, b) in m.spans.items()})
    return None


def split(pattern: str, s: SymStr, maxsplit: int = 0, flags: int = 0) -> List[SymStr]:
    """split on a literal character followed by an optional negative look-ahead:  c(?!X)"""
    STATS["split"] += 1
    if flags or maxsplit:
        raise Unsupported("re.split options")
    pr = rx.parse(pattern)
    ast = pr.ast
    items = list(ast.items) if isinstance(ast, Cat) else [ast]
    if pr.ncaps:
        raise Unsupported("re.split with capturing groups")
    if not (items and isinstance(items[0], Set) and not items[0].neg and len(items[0].chars) == 1):
        raise Unsupported("re.split pattern form")
    c = next(iter(items[0].chars))
    look = None
    if len(items) == 2 and isinstance(items[1], Look) and items[1].neg:
        look = rx.strip_groups(items[1].node)
    elif len(items) != 1:
        raise Unsupported("re.split pattern form")
    if not s._literal_positions_ok(c):
        raise Unsupported(f"re.split: a variable part may contain {c!r}")
    p = s.payload
    parts: List[SymStr] = []
    last = 0
    for i, ch in enumerate(p):
        if ch != c:
            continue
        ok = True
        if look is not None:
            suffix = SymStr(p[i + 1:])
            u = uniform(suffix.ast(), Cat((look, Rep(ANY_ALL, 0, None))))
            if u is None:
                raise Unsupported("re.split: the look-ahead holds for some instances only")
            ok = (u is False)
        if ok:
            parts.append(SymStr(p[last:i]))
            last = i + 1
    parts.append(SymStr(p[last:]))
    return parts
