"""Runs the REAL code (plain /venv interpreter, un-instrumented sources of $JASM_REPO) on concrete inputs
and prints JSON results.  Used by vf.replay and vf.sweeps.   stdin: one job or a list of jobs.

job kinds
  (default)  {"rule": yaml-object, "insts": [[addr, mnemonic, [operands]], ...], "mode": "all"|"first", "only_addr": bool,
              "macros_files": [yaml-objects]}     compile with Yaml2Regex, feed the instructions to the real CompleteConsumer
  "compile"  {"rule", "macros_files"}             regex text or error
  "mop"      {"rule", "listing": text, "macros_files", "modes": [[return_mode, search_mode, only_addr], ...]}
              the public entry point MasterOfPuppets on a listing file, once per mode, IN ONE PROCESS in the given order
  "parse"    {"lines": [...]}                     parse_line per line + the stream of the whole listing
  "history"  {"ops": [mop-jobs]}                  several mop operations one after the other in this process
"""
import json
import os
import sys
import tempfile
import traceback


class HarnessError(Exception):
    """the harness's own call of the public API does not fit this tree (renamed / removed entry point, changed signature):
    nothing was learned about the code"""


def _check_harness(e):
    if isinstance(e, HarnessError):
        raise e
    if isinstance(e, (AttributeError, TypeError, ImportError, NameError)):
        tb, last = e.__traceback__, None
        while tb is not None:
            last, tb = tb, tb.tb_next
        if last is not None and os.path.abspath(last.tb_frame.f_code.co_filename) == os.path.abspath(__file__):
            raise HarnessError(f"{type(e).__name__}: {e}") from e


def _content_file(tmp, prefix, text, suffix):
    """content-addressed file: the same text is the same path (and is written once) within one process,
    as it would be for a user who passes the same macro / rule / input file to several operations"""
    import hashlib
    p = os.path.join(tmp, f"{prefix}_{hashlib.sha256(text.encode()).hexdigest()[:12]}{suffix}")
    if not os.path.exists(p):
        with open(p, "w") as f:
            f.write(text)
    return p


def _write_rule(job, tmp, tag=""):
    import yaml
    rp = _content_file(tmp, "rule", yaml.safe_dump(job["rule"], sort_keys=False), ".yaml")
    mfiles = []
    names = job.get("macros_file_names") or []
    for k, mo in enumerate(job.get("macros_files") or []):
        if k < len(names) and names[k]:
            # a file name chosen by the case (the ORDER in which files are given must not be confused with their names' order)
            fp = os.path.join(tmp, os.path.basename(names[k]))
            with open(fp, "w") as f:
                f.write(yaml.safe_dump(mo, sort_keys=False))
            mfiles.append(fp)
        else:
            mfiles.append(_content_file(tmp, "macros", yaml.safe_dump(mo, sort_keys=False), ".yaml"))
    return rp, mfiles


def run_default(job, tmp):
    from jasm.consumer import CompleteConsumer
    from jasm.global_definitions import Instruction, MatchingSearchMode
    from jasm.matched_observers import MatchedObserver
    from jasm.jasm_regex.yaml2regex import Yaml2Regex
    from jasm.stringify_asm.implementations.observers import RemoveEmptyInstructions
    import regex
    out = {}
    rp, mfiles = _write_rule(job, tmp)
    try:
        rule = Yaml2Regex(rp, macros_from_terminal=mfiles or None).produce_regex()
    except Exception as e:
        _check_harness(e)
        return {"error": f"{type(e).__name__}: {e}", "stage": "compile"}
    out["regex"] = rule
    if job.get("kind") == "compile" or job.get("insts") is None:
        return out
    try:
        obs = MatchedObserver()
        mode = MatchingSearchMode.all_finds if job.get("mode", "all") == "all" else MatchingSearchMode.first_find
        c = CompleteConsumer(regex_rule=rule, matched_observer=obs, matching_mode=mode,
                             return_only_address=bool(job.get("only_addr")))
        c.add_observer(RemoveEmptyInstructions())
        for (a, m, ops) in job["insts"]:
            c.consume_instruction(Instruction(addr=a, mnemonic=m, operands=list(ops)))
        c.finalize()
        out["stream"] = obs.stringified_instructions
        out["matched"] = obs.matched
        out["addr_list"] = list(obs.addr_list)
        out["spans"] = [list(m.span()) for m in regex.finditer(rule, obs.stringified_instructions, timeout=60)]
    except Exception as e:
        _check_harness(e)
        out["error"] = f"{type(e).__name__}: {e}"
        out["stage"] = "match"
        out["trace"] = traceback.format_exc(limit=4)
    return out


def run_mop(job, tmp, tag=""):
    from jasm.global_definitions import MatchConfig, InputFileType, MatchingReturnMode, MatchingSearchMode
    from jasm.match import MasterOfPuppets
    rp, mfiles = _write_rule(job, tmp, tag)
    if job.get("binary_path"):
        ip = job["binary_path"]
    else:
        ip = _content_file(tmp, "input", job["listing"], ".s")
    res = []
    for (rm, sm, oa) in job.get("modes") or [["bool", "first_find", False]]:
        try:
            cfg = MatchConfig(pattern_pathstr=rp, input_file=ip,
                              input_file_type=InputFileType.binary if job.get("binary_path") else InputFileType.assembly,
                              return_only_address=bool(oa), return_mode=getattr(MatchingReturnMode, rm),
                              matching_mode=getattr(MatchingSearchMode, sm), macros=mfiles or None)
            r = MasterOfPuppets(cfg).perform_matching()
            res.append({"mode": [rm, sm, oa], "result": r})
        except Exception as e:
            _check_harness(e)
            res.append({"mode": [rm, sm, oa], "error": f"{type(e).__name__}: {e}"})
    return {"results": res}


def run_parse(job, tmp):
    from jasm.stringify_asm.implementations.gnu_objdump.asm_manual_parser_w_regex import parse_line
    from jasm.global_definitions import Instruction
    out = []
    for ln in job["lines"]:
        try:
            r = parse_line(ln)
            if isinstance(r, Instruction):
                out.append({"inst": [r.addr, r.mnemonic, list(r.operands)]})
            else:
                out.append({"other": type(r).__name__})
        except Exception as e:
            _check_harness(e)
            out.append({"error": f"{type(e).__name__}: {e}"})
    res = {"lines": out}
    if job.get("stream"):
        rule = {"pattern": ["zzzz"]}
        if job.get("config"):
            rule["config"] = job["config"]
        sub = run_mop({"rule": rule, "listing": "\n".join(job["lines"]),
                       "modes": [["all_instructions_string", "first_find", False]]}, tmp, "p")
        res["stream"] = sub["results"][0]
    return res


def run_resolver(job, tmp):
    import copy
    from jasm.jasm_regex.macro_expander.macro_args_resolver import MacroArgsResolver
    out = []
    for (macro, call) in job["cases"]:
        m = copy.deepcopy(macro)
        before = copy.deepcopy(macro)
        try:
            r = MacroArgsResolver().resolve(macro=m, tree=copy.deepcopy(call))
            out.append({"pattern": r.get("pattern")})
        except Exception as e:
            _check_harness(e)
            out.append({"error": f"{type(e).__name__}: {e}"})
    return {"results": out}


def run_call(job, tmp):
    """{"kind": "call", "target": "pkg.mod:attr.path", "args": [...], "kwargs": {...}} -> JSON-able result of the real function"""
    import importlib
    mod, _, path = job["target"].partition(":")
    obj = importlib.import_module(mod)
    for part in path.split("."):
        obj = getattr(obj, part)
    try:
        r = obj(*job.get("args", []), **job.get("kwargs", {}))
        try:
            json.dumps(r)
        except TypeError:
            r = repr(r)
        return {"result": r}
    except Exception as e:
        _check_harness(e)
        return {"error": f"{type(e).__name__}: {e}"}


def run_one(job, tmp):
    if job.get("debug"):
        # the same operation with the jasm logger at DEBUG level (as `jasm --debug`): what is logged must not change what is done
        import logging
        lg = logging.getLogger("jasm.logging_config")
        old_level, old_disable = lg.level, logging.root.manager.disable
        logging.disable(logging.NOTSET)
        lg.setLevel(logging.DEBUG)
        nh = logging.NullHandler()
        lg.addHandler(nh)
        try:
            return run_one(dict(job, debug=False), tmp)
        finally:
            lg.removeHandler(nh)
            lg.setLevel(old_level)
            logging.disable(old_disable)
    k = job.get("kind")
    if k == "call":
        return run_call(job, tmp)
    if k == "resolver":
        return run_resolver(job, tmp)
    if k == "mop":
        return run_mop(job, tmp)
    if k == "parse":
        return run_parse(job, tmp)
    if k == "history":
        return {"ops": [run_mop(op, tmp) for op in job["ops"]]}
    return run_default(job, tmp)


def _alpha_hook():
    if os.environ.get("JASM_ALPHA"):
        sys.path.insert(0, os.path.dirname(os.path.dirname(os.path.abspath(__file__))))
        from vf import alpha
        alpha.hook_from_env()


def main():
    _alpha_hook()
    import logging
    logging.disable(logging.CRITICAL)
    jobs = json.load(sys.stdin)
    single = isinstance(jobs, dict)
    if single:
        jobs = [jobs]
    res = []
    for j in jobs:
        with tempfile.TemporaryDirectory() as tmp:
            try:
                res.append(run_one(j, tmp))
            except HarnessError as e:
                sys.stderr.write("HARNESS-ERROR " + str(e))
                sys.exit(4)
            except Exception as e:
                try:
                    _check_harness(e)
                except HarnessError as he:
                    sys.stderr.write("HARNESS-ERROR " + str(he))
                    sys.exit(4)
                res.append({"error": f"runner: {type(e).__name__}: {e}", "trace": traceback.format_exc(limit=4)})
    json.dump(res[0] if single else res, sys.stdout)


if __name__ == "__main__":
    main()
