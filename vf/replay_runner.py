"""Runs the REAL code (plain /venv interpreter, un-instrumented sources of $JASM_REPO) on a concrete
input and prints a JSON result.  Used by vf.replay and the sweeps.

input (stdin JSON): {"rule": <yaml object>, "insts": [[addr, mnemonic, [operands]], ...],
                     "macros_files": [<yaml objects>], "mode": "all"|"first", "only_addr": bool}
"""
import json
import os
import sys
import tempfile
import traceback


def run_one(job, tmp):
    import yaml
    from jasm.consumer import CompleteConsumer
    from jasm.global_definitions import Instruction, MatchingSearchMode
    from jasm.matched_observers import MatchedObserver
    from jasm.jasm_regex.yaml2regex import Yaml2Regex
    from jasm.stringify_asm.implementations.observers import RemoveEmptyInstructions
    import regex
    out = {}
    rp = os.path.join(tmp, "rule.yaml")
    with open(rp, "w") as f:
        yaml.safe_dump(job["rule"], f, sort_keys=False)
    mfiles = []
    for k, mo in enumerate(job.get("macros_files") or []):
        mp = os.path.join(tmp, f"macros{k}.yaml")
        with open(mp, "w") as f:
            yaml.safe_dump(mo, f, sort_keys=False)
        mfiles.append(mp)
    try:
        rule = Yaml2Regex(rp, macros_from_terminal=mfiles or None).produce_regex()
    except Exception as e:
        return {"error": f"{type(e).__name__}: {e}", "stage": "compile"}
    out["regex"] = rule
    if job.get("insts") is None:
        return out
    try:
        obs = MatchedObserver()
        mode = MatchingSearchMode.all_finds if job.get("mode", "all") == "all" else MatchingSearchMode.first_find
        c = CompleteConsumer(regex_rule=rule, matched_observer=obs, matching_mode=mode,
                             return_only_address=bool(job.get("only_addr")))
        c.add_observer(RemoveEmptyInstructions())
        for (a, m, ops) in job["insts"]:
            c.consume_instruction(Instruction(addr=a, mnemonic=m, operands=list(ops)))
        c.finalize()
        out["stream"] = obs.stringified_instructions
        out["matched"] = obs.matched
        out["addr_list"] = list(obs.addr_list)
        out["spans"] = [list(m.span()) for m in regex.finditer(rule, obs.stringified_instructions, timeout=60)]
    except Exception as e:
        out["error"] = f"{type(e).__name__}: {e}"
        out["stage"] = "match"
        out["trace"] = traceback.format_exc(limit=4)
    return out


def main():
    import logging
    logging.disable(logging.CRITICAL)
    jobs = json.load(sys.stdin)
    single = isinstance(jobs, dict)
    if single:
        jobs = [jobs]
    res = []
    with tempfile.TemporaryDirectory() as tmp:
        for j in jobs:
            res.append(run_one(j, tmp))
    json.dump(res[0] if single else res, sys.stdout)


if __name__ == "__main__":
    main()
