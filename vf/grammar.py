"""Stream grammar K_ext (DESIGN 3.1 / appendix C) as an explicit NFA over the extended alphabet.

record  = Hx+ "::" Fc+ "," (Fc* ",")+ "|"      no field contains "::"
stream  = record*

Opaque letters (rx.Sym) are placed according to their *level*:
  NAME      literal name: may occur wherever a name's characters may (field content, address)
  INST      closed instruction-level regex: zero or more whole records (S0 -> S0)
  OPER      closed operand-level regex: whole fields (field boundary -> field boundary)
  DEREF     part of one field, no separator (inside a field)
  DIGITS    decimal text of a symbolic integer: digits (hex chars and field chars)
  INSTBODY  text captured by an instruction capture: "mn,op,..,op" without the final ","
  FIELD     text captured by an operand capture: one non-empty field content
  zero-width symbols (assert, capopen, capclose) do not move.
"""
from typing import Any, Dict, FrozenSet, Iterable, Optional

from .rx import Set, Sym

S0, A, C1, M0, M, MC, F0, F, FC, F1, D = range(11)
NAMES = ["S0", "A", "C1", "M0", "M", "Mc", "F0", "F", "Fc", "F1", "D"]
HEX = frozenset("0123456789abcdef")
ALL_STATES = frozenset(range(11))

INST, OPER, DEREF, NAME, DIGITS, INSTBODY, FIELD = "INST", "OPER", "DEREF", "NAME", "DIGITS", "INSTBODY", "FIELD"

# D: inside a bracket operand "[...]" (a field that starts with '[' holds no separator up to its ']':
# established for the parser's output by C09/C10)
BOUNDARY = {INST: frozenset([S0]), OPER: frozenset([F0, F1]), DEREF: frozenset([D])}
UNIT_END = {INST: frozenset([S0]), OPER: frozenset([F1]), DEREF: frozenset([D])}

# sets the grammar distinguishes (for minterm computation)
GRAMMAR_SETS = [Set(HEX), Set(frozenset(",")), Set(frozenset("|")), Set(frozenset(":")), Set(frozenset("[")),
                Set(frozenset("]"))]


def _fieldchar(q: int, colon: bool) -> Optional[int]:
    """transition on a field-content character from state q"""
    if q == M0:
        return MC if colon else M
    if q == M:
        return MC if colon else M
    if q == MC:
        return None if colon else M
    if q in (F0, F, F1):
        return FC if colon else F
    if q == FC:
        return None if colon else F
    return None


class Grammar:
    def __init__(self, levels: Dict[str, str], child_mid_addr: bool = False):
        """levels: Sym.ident -> level name (for kinds name/child/atom/bref/digits)"""
        self.levels = levels
        self.child_mid_addr = child_mid_addr
        self._cache: Dict[Any, FrozenSet[int]] = {}

    def level_of(self, s: Sym) -> str:
        if s.kind == "name":
            return NAME
        if s.kind == "digits":
            return DIGITS
        lv = self.levels.get(s.ident)
        if lv is None:
            raise KeyError(f"no level declared for symbol {s.kind}:{s.ident}")
        return lv

    def step1(self, q: int, x: Any) -> Iterable[int]:
        if isinstance(x, str):
            if q == S0:
                return [A] if x in HEX else []
            if q == A:
                if x in HEX:
                    return [A]
                return [C1] if x == ":" else []
            if q == C1:
                return [M0] if x == ":" else []
            if q == D:
                if x in ",|":
                    return []
                return [F] if x == "]" else [D]
            if x == "[" and q in (F0, F1):
                return [D]
            if x == ",":
                if q in (M, MC):
                    return [F0]
                if q in (F0, F, FC, F1):
                    return [F1]
                return []
            if x == "|":
                return [S0] if q == F1 else []
            r = _fieldchar(q, x == ":")
            return [] if r is None else [r]
        # symbols
        if x.kind in ("assert", "capopen", "capclose"):
            return [q]
        if x.kind in ("bol", "eol"):
            return [q]
        lv = self.level_of(x)
        if q == D:
            return [D] if lv in (NAME, DIGITS, DEREF, FIELD) else []
        if lv == NAME or lv == DIGITS:
            out = []
            r = _fieldchar(q, False)
            if r is not None:
                out.append(r)
            if q in (S0, A):
                out.append(A)
            return out
        if lv == INST:
            if q == S0:
                return [S0]
            if self.child_mid_addr and q == A:
                return [S0]
            return []
        if lv == OPER:
            return [F1] if q in (F0, F1) else []
        if lv == DEREF:
            return []
        if lv == FIELD:
            r = _fieldchar(q, False)
            if q in (M0, M, MC):
                return []
            return [] if r is None else [r]
        if lv == INSTBODY:
            return [F0, F, F1] if q == M0 else []
        raise KeyError(lv)

    def step(self, S: FrozenSet[int], x: Any) -> FrozenSet[int]:
        key = (S, x)
        r = self._cache.get(key)
        if r is None:
            out = set()
            for q in S:
                out.update(self.step1(q, x))
            r = frozenset(out)
            self._cache[key] = r
        return r


def start_states(level: str) -> FrozenSet[int]:
    if level == INST:
        return frozenset([S0])
    if level == OPER:
        return frozenset([F0, F1])
    if level == DEREF:
        return frozenset([D])
    raise KeyError(level)


def names(S: FrozenSet[int]) -> str:
    return "{" + ",".join(NAMES[q] for q in sorted(S)) + "}"
