"""Regular-language verification conditions (DESIGN 3.3 / appendix C), decided completely by
product exploration of on-the-fly determinised automata.  Every function returns None when
the VC holds, otherwise the shortest (then lexicographically least) witness word.
"""
from __future__ import annotations

from collections import deque
from dataclasses import dataclass
from typing import Any, Dict, FrozenSet, List, Optional, Sequence, Tuple

from . import grammar as G
from .rx import (Alt, Big, Cat, Grp, Lang, Look, Rep, Set, Sym, Unsupported, alphabet_for,
                 canon, nullable, show, strip_groups, tloop, walk, word_str)

STATS = {"products": 0, "states": 0}


def abstract_big(n: Any, levels: Dict[str, str]) -> Any:
    """replace big operators over a symbolic sequence S by letters (DESIGN 2.1):
       "|".join(T(x) for x in S)  ->  T(ĝ)     ĝ = the generic element ('some element of S');
                                               sound when T is linear in x (regular substitution
                                               ĝ -> {x_1..x_n} commutes with the regex operators)
       "".join(x for x in S)      ->  atom cat:S   (the concatenation of all elements, in order;
                                               a closed regex of the elements' level by T-cat)
    """
    if isinstance(n, Big):
        t = abstract_big(n.template, levels)
        gens = [s for s in walk(t) if isinstance(s, Sym) and s.kind in ("child", "atom")]
        if len(gens) != 1:
            raise Unsupported("join template is not linear in its element")
        lv = levels.get(gens[0].ident)
        if n.sep == "|":
            return Grp(t) if not isinstance(t, Grp) else t
        if n.sep == "":
            st = strip_groups(t)
            aid = "cat:" + n.seq if isinstance(st, Sym) else "cat:" + n.seq + ":" + canon(t)
            levels[aid] = lv
            return Sym("atom", aid)
        raise Unsupported(f"join separator {n.sep!r}")
    if isinstance(n, Cat):
        return Cat(tuple(abstract_big(x, levels) for x in n.items))
    if isinstance(n, Alt):
        return Alt(tuple(abstract_big(x, levels) for x in n.items))
    if isinstance(n, Grp):
        return Grp(abstract_big(n.node, levels), n.cap)
    if isinstance(n, Rep):
        return Rep(abstract_big(n.node, levels), n.lo, n.hi, n.lazy)
    if isinstance(n, Look):
        return Look(n.neg, abstract_big(n.node, levels))
    return n


def _subst(n: Any, ident: str, by: Any) -> Any:
    if isinstance(n, Sym) and n.kind == "child" and n.ident == ident:
        return by
    if isinstance(n, Cat):
        return Cat(tuple(_subst(x, ident, by) for x in n.items))
    if isinstance(n, Alt):
        return Alt(tuple(_subst(x, ident, by) for x in n.items))
    if isinstance(n, Grp):
        return Grp(_subst(n.node, ident, by), n.cap)
    if isinstance(n, Rep):
        return Rep(_subst(n.node, ident, by), n.lo, n.hi, n.lazy)
    if isinstance(n, Look):
        return Look(n.neg, _subst(n.node, ident, by))
    return n


def optional_children(n: Any) -> Any:
    """every closed child / atom may match the empty sequence (times min 0): c -> c?"""
    if isinstance(n, Sym) and n.kind in ("child", "atom"):
        return Rep(n, 0, 1)
    if isinstance(n, Cat):
        return Cat(tuple(optional_children(x) for x in n.items))
    if isinstance(n, Alt):
        return Alt(tuple(optional_children(x) for x in n.items))
    if isinstance(n, Grp):
        return Grp(optional_children(n.node), n.cap)
    if isinstance(n, Rep):
        return Rep(optional_children(n.node), n.lo, n.hi, n.lazy)
    return n


def assert_levels(asts: Sequence[Any], levels: Dict[str, str]) -> Dict[str, str]:
    """level of each look-around letter = level of the closed children in its body"""
    out: Dict[str, str] = {}
    for a in asts:
        for n in walk(a):
            if isinstance(n, Look):
                ident = ("!" if n.neg else "=") + canon(n.node)
                lv = None
                for s in walk(n.node):
                    if isinstance(s, Sym) and s.kind in ("child", "atom"):
                        lv = levels.get(s.ident)
                out[ident] = lv or G.INST
    return out


def _letters(langs: Sequence[Lang]) -> List[Any]:
    sets: List[Set] = list(G.GRAMMAR_SETS)
    syms: List[Sym] = []
    for l in langs:
        sets.extend(l.sets())
        syms.extend(l.syms())
    return alphabet_for(sets, syms)


@dataclass
class Witness:
    word: Tuple[Any, ...]
    side: str            # which side accepts ('code' / 'spec' / '')
    note: str = ""

    def __str__(self):
        return f"{word_str(self.word)!r} ({self.side}{'; ' + self.note if self.note else ''})"


def den(code: Any, spec: Any, level: str, levels: Dict[str, str]) -> Optional[Witness]:
    """DEN-L:  L(code) ∩ K_L  =  L(spec) ∩ K_L   (K_L: prefixes of streams from an L-boundary)"""
    A, B = Lang(code), Lang(spec)
    K = G.Grammar(levels)
    letters = _letters([A, B])
    start = (A.init(), B.init(), G.start_states(level))
    seen = {start}
    dq = deque([(start, ())])
    STATS["products"] += 1
    while dq:
        (a, b, k), w = dq.popleft()
        if A.acc(a) != B.acc(b):
            return Witness(w, "code" if A.acc(a) else "spec")
        for x in letters:
            k2 = K.step(k, x)
            if not k2:
                continue
            a2, b2 = A.step(a, x), B.step(b, x)
            if not a2 and not b2:
                continue
            st = (a2, b2, k2)
            if st not in seen:
                seen.add(st)
                dq.append((st, w + (x,)))
    STATS["states"] += len(seen)
    return None


def end(code: Any, level: str, levels: Dict[str, str], allow_empty: bool = False) -> Optional[Witness]:
    """END-L: every match from an L-boundary on a well-formed stream ends on an L-unit boundary"""
    A = Lang(code)
    K = G.Grammar(levels)
    letters = _letters([A])
    start = (A.init(), G.start_states(level))
    seen = {start}
    dq = deque([(start, ())])
    ok_end = G.UNIT_END[level]
    STATS["products"] += 1
    while dq:
        (a, k), w = dq.popleft()
        if A.acc(a):
            if not w:
                if not allow_empty:
                    return Witness(w, "code", "matches the empty sequence")
            elif not k <= ok_end:
                return Witness(w, "code", f"ends inside a unit (grammar state {G.names(k)})")
        for x in letters:
            k2 = K.step(k, x)
            if not k2:
                continue
            a2 = A.step(a, x)
            if not a2:
                continue
            st = (a2, k2)
            if st not in seen:
                seen.add(st)
                dq.append((st, w + (x,)))
    STATS["states"] += len(seen)
    return None


def entry(code: Any, level: str, levels: Dict[str, str]) -> Optional[Witness]:
    """ENTRY: in every word of L(code) ∩ K_L each closed child / look-ahead is entered at a
    boundary of its own level."""
    A = Lang(code)
    alv = assert_levels([code], levels)
    K = G.Grammar(levels)
    letters = _letters([A])
    start = (A.init(), G.start_states(level))
    seen = {start: ()}
    edges: Dict[Any, List[Tuple[Any, Any]]] = {}
    dq = deque([start])
    while dq:
        st = dq.popleft()
        a, k = st
        for x in letters:
            k2 = K.step(k, x)
            if not k2:
                continue
            a2 = A.step(a, x)
            if not a2:
                continue
            st2 = (a2, k2)
            edges.setdefault(st2, []).append((st, x))
            if st2 not in seen:
                seen[st2] = seen[st] + (x,)
                dq.append(st2)
    # co-reachable states
    co = set(s for s in seen if A.acc(s[0]))
    stack = list(co)
    while stack:
        s = stack.pop()
        for (p, _x) in edges.get(s, ()):
            if p not in co:
                co.add(p)
                stack.append(p)
    best: Optional[Witness] = None
    for s2, preds in edges.items():
        if s2 not in co:
            continue
        for (p, x) in preds:
            if isinstance(x, Sym) and x.kind in ("child", "atom", "assert"):
                lv = alv.get(x.ident) if x.kind == "assert" else levels.get(x.ident)
                if lv not in G.BOUNDARY:
                    continue
                if not p[1] <= G.BOUNDARY[lv]:
                    w = seen[p] + (x,)
                    cand = Witness(w, "code", f"{x.kind} {x.ident} entered at grammar state {G.names(p[1])}, not a {lv} boundary")
                    if best is None or len(w) < len(best.word):
                        best = cand
    STATS["products"] += 1
    STATS["states"] += len(seen)
    return best


FORBIDDEN_STARTS = [G.C1, G.M0, G.M, G.MC, G.F0, G.F, G.FC, G.F1]


def start_a(code: Any, levels: Dict[str, str]) -> Optional[Witness]:
    """START-a: a non-empty match anywhere in a well-formed stream begins at a record start or
    inside an address field.  Children may be empty (c?) and may themselves begin inside an address."""
    R = Lang(optional_children(code))
    K = G.Grammar(levels, child_mid_addr=True)
    letters = _letters([R])
    dq = deque()
    seen = set()
    for q in FORBIDDEN_STARTS:
        st = (R.init(), frozenset([q]), q)
        seen.add(st)
        dq.append((st, ()))
    STATS["products"] += 1
    while dq:
        (a, k, q0), w = dq.popleft()
        if R.acc(a) and any(isinstance(x, str) or x.kind in ("child", "atom", "name", "bref", "digits") for x in w):
            return Witness(w, "code", f"match starts at grammar state {G.NAMES[q0]} (inside a record)")
        for x in letters:
            k2 = K.step(k, x)
            if not k2:
                continue
            a2 = R.step(a, x)
            if not a2:
                continue
            st = (a2, k2, q0)
            if st not in seen:
                seen.add(st)
                dq.append((st, w + (x,)))
    STATS["states"] += len(seen)
    return None


def _start_bc(code: Any, levels: Dict[str, str], direction: str) -> Optional[Witness]:
    """START-b / START-c.  Words are z·h·y with z leading zero-width look-aheads, h in Hx+ the part
    of the address before the position p, y the text from p (read from grammar state A).
      b:  z·y  in L(R)  =>  z·h·y in L(R)     (a match from inside the address is a match from the record start)
      c:  z·h·y in L(R), y starts with a hex digit  =>  z·y in L(R)     (address-suffix closure)
    By b and c of the children a look-ahead has the same truth value at every position of one
    address field, which is why z may be hoisted in front of h."""
    Rl = Lang(optional_children(code))
    K = G.Grammar(levels)
    letters = _letters([Rl])
    hexletters = [x for x in letters if (isinstance(x, str) and x in G.HEX)]
    zletters = [x for x in letters if isinstance(x, Sym) and x.kind == "assert"]
    # phase 0: both copies read z
    starts = {}
    work = [((Rl.init(), Rl.init()), ())]
    while work:
        (a, b), z = work.pop()
        if (a, b) in starts:
            continue
        starts[(a, b)] = z
        for x in zletters:
            a2, b2 = Rl.step(a, x), Rl.step(b, x)
            if a2 or b2:
                work.append(((a2, b2), z + (x,)))
    # phase 1: copy "long" additionally reads h
    dq = deque()
    seen = set()
    for (a, b), z in starts.items():
        reach = {}
        w2 = [(Rl.step(b, h), (h,)) for h in hexletters]
        while w2:
            r, hw = w2.pop()
            if r in reach:
                continue
            reach[r] = hw
            for h in hexletters:
                w2.append((Rl.step(r, h), hw + (h,)))
        for r, hw in reach.items():
            st = (a, r, frozenset([G.A]))
            if st not in seen:
                seen.add(st)
                dq.append((st, (), z, hw))
    STATS["products"] += 1
    while dq:
        (a, b, k), w, z, h = dq.popleft()
        if w:
            if direction == "b" and Rl.acc(a) and not Rl.acc(b):
                return Witness(z + h + ("§",) + w, "code",
                               "matches from inside the address (after §) but not from the record start")
            if direction == "c" and Rl.acc(b) and not Rl.acc(a):
                return Witness(z + h + ("§",) + w, "code",
                               "matches from the record start but not from the address position §")
        for x in letters:
            if not w:
                if isinstance(x, Sym) and x.kind in ("child", "atom", "assert"):
                    continue      # compositional: the child's own START-b/c; look-aheads were hoisted
                if direction == "c" and not (isinstance(x, str) and x in G.HEX):
                    continue
            k2 = K.step(k, x)
            if not k2:
                continue
            a2, b2 = Rl.step(a, x), Rl.step(b, x)
            if not a2 and not b2:
                continue
            st = (a2, b2, k2)
            if st not in seen:
                seen.add(st)
                dq.append((st, w + (x,), z, h))
    STATS["states"] += len(seen)
    return None


def start_b(code: Any, levels: Dict[str, str]) -> Optional[Witness]:
    return _start_bc(code, levels, "b")


def start_c(code: Any, levels: Dict[str, str]) -> Optional[Witness]:
    return _start_bc(code, levels, "c")


def nonempty(code: Any) -> Optional[Witness]:
    if Lang(code).acc(Lang(code).init()):
        return Witness((), "code", "matches the empty sequence")
    return None


def incl(a: Any, b: Any, level: str, levels: Dict[str, str]) -> Optional[Witness]:
    """L(a) ∩ K_L ⊆ L(b)"""
    A, B = Lang(a), Lang(b)
    K = G.Grammar(levels)
    letters = _letters([A, B])
    start = (A.init(), B.init(), G.start_states(level))
    seen = {start}
    dq = deque([(start, ())])
    while dq:
        (sa, sb, k), w = dq.popleft()
        if A.acc(sa) and not B.acc(sb):
            return Witness(w, "code")
        for x in letters:
            k2 = K.step(k, x)
            if not k2:
                continue
            a2 = A.step(sa, x)
            if not a2:
                continue
            st = (a2, B.step(sb, x), k2)
            if st not in seen:
                seen.add(st)
                dq.append((st, w + (x,)))
    return None


def unit(code: Any, level: str, levels: Dict[str, str]) -> Optional[Witness]:
    """UNIT: a leaf element consumes exactly ONE unit of its level (one record / one operand field):
    no accepted word of L(code) ∩ K_L contains the unit terminator ('|' resp. ',') other than once, at its end."""
    A = Lang(code)
    K = G.Grammar(levels)
    letters = _letters([A])
    sep = "|" if level == G.INST else ","
    start = (A.init(), G.start_states(level), 0)
    seen = {start}
    dq = deque([(start, ())])
    while dq:
        (a, k, c), w = dq.popleft()
        if A.acc(a) and w and not (c == 1 and w[-1] == sep):
            return Witness(w, "code", f"consumes {c} '{sep}'-terminated units (must be exactly one, ending the match)")
        for x in letters:
            k2 = K.step(k, x)
            if not k2:
                continue
            a2 = A.step(a, x)
            if not a2:
                continue
            c2 = min(c + 1, 3) if x == sep else c
            if x != sep and c >= 1 and not (isinstance(x, Sym) and x.kind in ("assert", "capopen", "capclose")):
                c2 = 3      # text after the terminator
            st = (a2, k2, c2)
            if st not in seen:
                seen.add(st)
                dq.append((st, w + (x,)))
    return None
