"""sstr: structured symbolic strings (DESIGN 2.2).

A SymStr is a `str` whose payload consists of literal characters and *variable markers*; every
variable stands for any text of a regular language (given as regex text).  The set of concrete
strings a SymStr denotes is the concatenation of its segments: a regular language L(s).

Every inspecting operation is answered only when the answer is THE SAME FOR EVERY INSTANCE
(decided on L(s) by the automata of vf.rx); then it is computed on the payload.  Otherwise the
operation forks (comparisons, int()) or raises Unsupported (-> undecided).  Concatenation and
formatting are CPython's own code acting on the payload.
"""
from __future__ import annotations

import itertools
from typing import Any, Dict, FrozenSet, List, Optional, Sequence, Tuple

import z3

from . import rx
from .markers import Marker, is_marker_char
from .pyvc import Unsupported, ctx
from .rx import Alt, Cat, Grp, Lang, Rep, Set, Sym

ANY = Set(frozenset("\n"), True)


# --------------------------------------------------------------------------- variables
def var(ident: str, regex: str, avoid: Optional[str] = None) -> "SymStr":
    """a fresh variable: any text of L(regex) (that does not contain the text `avoid`)"""
    m = ctx().table.new("var", ident, regex=regex, avoid=avoid)
    return SymStr(m.text)


def lit(text: str) -> "SymStr":
    return SymStr(text)


_AST_CACHE: Dict[str, Any] = {}


def _var_ast(regex: str, avoid: Optional[str] = None):
    key = regex if avoid is None else regex + "\x00" + avoid
    a = _AST_CACHE.get(key)
    if a is None:
        a = rx.strip_groups(rx.parse(regex).ast)
        if avoid:
            a = rx.Avoid(a, avoid)
        _AST_CACHE[key] = a
    return a


def _mast(m):
    if m.info.get("ast") is not None:
        return m.info["ast"]
    return _var_ast(m.info["regex"], m.info.get("avoid"))


def var_of_ast(ident: str, ast: Any) -> "SymStr":
    m = ctx().table.new("var", ident, regex=None, ast=ast)
    return SymStr(m.text)


def _chars_of(ast: Any) -> Optional[FrozenSet[str]]:
    """set of characters that can occur in words of the AST (None = any character)"""
    out: set = set()
    for n in rx.walk(ast):
        if isinstance(n, Set):
            if n.neg:
                return None
            out |= n.chars
    return frozenset(out)


def _nullable(ast: Any) -> bool:
    return rx.nullable(ast)


class SymStr(str):
    def __new__(cls, payload: str = ""):
        return str.__new__(cls, str.__str__(payload) if isinstance(payload, str) else payload)

    # ------------------------------------------------------------------ structure
    @property
    def payload(self) -> str:
        return str.__str__(self)

    def segs(self) -> List[Any]:
        """list of str (literal runs) and Marker (variables)"""
        toks = ctx().table.tokens(self.payload)
        out: List[Any] = []
        for t in toks:
            if isinstance(t, str):
                if out and isinstance(out[-1], str):
                    out[-1] += t
                else:
                    out.append(t)
            else:
                if t.kind != "var":
                    raise Unsupported(f"marker of kind {t.kind} inside a structured string")
                out.append(t)
        return out

    def ast(self) -> Any:
        items: List[Any] = []
        for s in self.segs():
            if isinstance(s, str):
                items.extend(Set(frozenset(c)) for c in s)
            else:
                items.append(_mast(s))
        return Cat(tuple(items))

    def var_chars(self) -> Optional[FrozenSet[str]]:
        out: set = set()
        for s in self.segs():
            if isinstance(s, Marker):
                c = _chars_of(_mast(s))
                if c is None:
                    return None
                out |= c
        return frozenset(out)

    def render(self, c=None) -> str:
        return ctx().table.show(self.payload) if c is None else c.table.show(self.payload)

    # ------------------------------------------------------------------ decisions on L(s)
    def _uniform(self, pred_ast: Any, what: str) -> Optional[bool]:
        """is every instance in L(pred) (True) / none (False) / neither (None)"""
        return uniform(self.ast(), pred_ast)

    def _decide(self, pred_ast: Any, what: str) -> bool:
        r = self._uniform(pred_ast, what)
        if r is None:
            # the answer differs between instances: fork (the language is not refined, so both
            # branches over-approximate; conclusions that hold for all of L(s) stay sound)
            return ctx().choose(2, f"{what}") == 0
        return r

    # ------------------------------------------------------------------ str API
    def __eq__(self, o):
        if isinstance(o, SymStr):
            if o.payload == self.payload:
                return True
            raise Unsupported("comparison of two different structured strings")
        if isinstance(o, str):
            return self._decide(_lit_ast(o), f"== {o!r}")
        return False

    def __ne__(self, o):
        return not self.__eq__(o)

    def __hash__(self):
        return hash(self.payload)

    def __bool__(self):
        return not self._decide(Cat(()), "is empty")

    def __len__(self):
        raise Unsupported("len() of a structured string")

    def __iter__(self):
        raise Unsupported("iteration over a structured string")

    def __contains__(self, sub):
        if isinstance(sub, SymStr):
            raise Unsupported("structured string as needle")
        return self._decide(Cat((Rep(ANY_ALL, 0, None), _lit_ast(sub), Rep(ANY_ALL, 0, None))), f"contains {sub!r}")

    def startswith(self, p, *a):
        if not a and type(p) is tuple and p and all(type(x) is str for x in p):
            # str.startswith(tuple): any of the prefixes
            for x in p:
                if self.startswith(x):
                    return True
            return False
        if a or not isinstance(p, str) or isinstance(p, SymStr):
            raise Unsupported("startswith form")
        return self._decide(Cat((_lit_ast(p), Rep(ANY_ALL, 0, None))), f"startswith {p!r}")

    def endswith(self, p, *a):
        if not a and type(p) is tuple and p and all(type(x) is str for x in p):
            for x in p:
                if self.endswith(x):
                    return True
            return False
        if a or not isinstance(p, str) or isinstance(p, SymStr):
            raise Unsupported("endswith form")
        return self._decide(Cat((Rep(ANY_ALL, 0, None), _lit_ast(p))), f"endswith {p!r}")

    def lower(self):
        segs = self.segs()
        out = ""
        for s in segs:
            if isinstance(s, str):
                out += s.lower()
            else:
                c = _chars_of(_var_ast(s.info["regex"]))
                if c is None or any(ch != ch.lower() for ch in c):
                    # a variable that may hold upper-case letters: map it to a lower-cased variable
                    m = ctx().table.new("var", s.ident + ".lower", regex=_lower_regex(s.info["regex"]))
                    out += m.text
                else:
                    out += s.text
        return SymStr(out)

    def _literal_positions_ok(self, chars: str) -> bool:
        """no variable can contain any of `chars`"""
        vc = self.var_chars()
        return vc is not None and not (set(chars) & vc)

    def split(self, sep=None, maxsplit=-1):
        if sep is None or not isinstance(maxsplit, int) or isinstance(maxsplit, bool) or isinstance(sep, SymStr) or not isinstance(sep, str):
            raise Unsupported("split form")
        if not self._occurrences_literal_only(sep):
            raise Unsupported(f"split on {sep!r}: a variable part may contain the separator")
        # every occurrence of the separator lies in the literal text, at the same place in every instance: the payload's split
        # (with the same maxsplit) is the split of every instance
        return [SymStr(p) for p in self.payload.split(sep, maxsplit)]

    def rsplit(self, sep=None, maxsplit=-1):
        if sep is None or not isinstance(maxsplit, int) or isinstance(maxsplit, bool) or isinstance(sep, SymStr) or not isinstance(sep, str):
            raise Unsupported("rsplit form")
        if not self._occurrences_literal_only(sep):
            raise Unsupported(f"rsplit on {sep!r}: a variable part may contain the separator")
        return [SymStr(p) for p in self.payload.rsplit(sep, maxsplit)]

    def partition(self, sep):
        if isinstance(sep, SymStr) or not isinstance(sep, str) or not self._occurrences_literal_only(sep):
            raise Unsupported("partition: a variable part may contain the separator")
        return tuple(SymStr(p) if p != sep else sep for p in self.payload.partition(sep))

    def rpartition(self, sep):
        if isinstance(sep, SymStr) or not isinstance(sep, str) or not self._occurrences_literal_only(sep):
            raise Unsupported("rpartition: a variable part may contain the separator")
        return tuple(SymStr(p) if p != sep else sep for p in self.payload.rpartition(sep))

    def sym_len(self):
        """len(s) as a symbolic integer: the literal characters plus one non-negative unknown per variable part (>= 1 when the
        variable's language does not contain the empty text)"""
        from .pyvc import SymInt, assume
        total = z3.IntVal(0)
        for sg in self.segs():
            if isinstance(sg, str):
                total = total + len(sg)
            else:
                v = z3.Int(f"len!{sg.ident}")
                assume(v >= (0 if _nullable(_mast(sg)) else 1))
                total = total + v
        return SymInt(z3.simplify(total), f"len({self.render()})")

    def _occurrences_literal_only(self, needle: str) -> bool:
        """every occurrence of needle in every instance lies inside the literal text, at the payload positions"""
        if needle == "":
            return False
        if self._literal_positions_ok(needle):
            return True
        k = self.payload.count(needle)
        return count_range(self.ast(), needle, k + 1) == (k, k)

    def replace(self, old, new, count=-1):
        if count != -1:
            raise Unsupported("replace with count")
        if isinstance(old, SymStr):
            # removing a slice of self that is pinned by a literal character occurring exactly once
            if old.payload and old.payload in self.payload:
                pins = [c for c in old.payload if not is_marker_char(c) and self.payload.count(c) == 1 and self._literal_positions_ok(c)]
                if pins:
                    newp = new.payload if isinstance(new, SymStr) else new
                    return SymStr(self.payload.replace(old.payload, newp))
            raise Unsupported("replace of a structured substring that is not pinned by a unique literal character")
        if not isinstance(old, str):
            raise Unsupported("replace form")
        if not self._occurrences_literal_only(old):
            raise Unsupported(f"replace {old!r}: a variable part may contain it")
        newp = new.payload if isinstance(new, SymStr) else new
        return SymStr(self.payload.replace(old, newp))

    def __getitem__(self, k):
        segs = self.segs()
        if isinstance(k, slice):
            if k.step not in (None, 1):
                raise Unsupported("slice step")
            a = k.start or 0
            b = k.stop
            if a < 0 or (b is not None and b > 0):
                raise Unsupported("slice form")
            nb = 0 if b is None else -b
            head = segs[0] if segs else ""
            tail = segs[-1] if segs else ""
            if a and not (isinstance(head, str) and len(head) >= a):
                raise Unsupported("slice start cuts into a variable part")
            if nb and not (isinstance(tail, str) and len(tail) >= nb):
                raise Unsupported("slice end cuts into a variable part")
            p = self.payload
            return SymStr(p[a:len(p) - nb] if nb else p[a:])
        if isinstance(k, int):
            return self._char_at(k, segs)
        raise Unsupported("index form")

    def _char_at(self, k: int, segs: List[Any]):
        """the character at index k: a literal when the position is literal in the payload, otherwise a
        one-character variable whose class is exactly the set of characters instances have there"""
        p = self.payload
        probe = p[:k + 1] if k >= 0 else p[k:]
        if probe and not any(is_marker_char(c) for c in probe) and len(probe) == (k + 1 if k >= 0 else -k):
            return p[k]
        cls = chars_at(self.ast(), k)
        if cls is None:
            raise Unsupported("character index may be out of range for some instances")
        sets = list(cls)
        node = sets[0] if len(sets) == 1 else Alt(tuple(sets))
        return var_of_ast(f"{self.render()}[{k}]", node)

    def __add__(self, o):
        if isinstance(o, str):
            return SymStr(self.payload + str.__str__(o))
        return NotImplemented

    def __radd__(self, o):
        if isinstance(o, str):
            return SymStr(str.__str__(o) + self.payload)
        return NotImplemented

    def __format__(self, spec):
        if spec:
            raise Unsupported("format spec on a structured string")
        return self.payload

    def __str__(self):
        return self

    def __repr__(self):
        try:
            return f"SymStr({self.render()})"
        except Exception:
            return "SymStr(?)"

    def removeprefix(self, pre):
        if self.startswith(pre):
            p = self.payload
            if p.startswith(pre):
                return SymStr(p[len(pre):])
            raise Unsupported("removeprefix: prefix lies in a variable part")
        return self

    def removesuffix(self, suf):
        if self.endswith(suf):
            p = self.payload
            if p.endswith(suf):
                return SymStr(p[:len(p) - len(suf)])
            raise Unsupported("removesuffix: suffix lies in a variable part")
        return self

    def _unsup(self, *a, **k):
        raise Unsupported("unmodelled operation on a structured string")

    strip = lstrip = rstrip = find = index = rfind = count = upper = _unsup
    isdigit = isalnum = isalpha = splitlines = title = casefold = zfill = center = _unsup
    __lt__ = __le__ = __gt__ = __ge__ = __mul__ = __rmul__ = __mod__ = _unsup
    # every remaining str method would run natively on the payload (markers): none is modelled
    capitalize = encode = expandtabs = format = format_map = isascii = isdecimal = isidentifier = islower = isnumeric = _unsup
    isprintable = isspace = istitle = isupper = ljust = rindex = rjust = swapcase = translate = _unsup

    # int() support (rt.b_int)
    def sym_int(self, base):
        b = 10 if base is None else base
        g = INT_GRAMMAR.get(b)
        if g is None:
            raise Unsupported(f"int(_, {base})")
        if self._decide(g, f"is an integer literal (base {b})"):
            from .pyvc import SymInt
            return SymInt(z3.Int(f"intval{b}!{self.render()}"), f"intval{b}({self.render()})")
        raise ValueError(f"invalid literal for int() with base {b}")


ANY_ALL = Set(frozenset(), True)          # any character at all (incl. newline)


def _lit_ast(s: str) -> Any:
    return Cat(tuple(Set(frozenset(c)) for c in s))


def _lower_regex(regex: str) -> str:
    out = []
    i = 0
    while i < len(regex):
        c = regex[i]
        if c == "\\" and i + 1 < len(regex):
            out.append(regex[i:i + 2])
            i += 2
            continue
        out.append(c.lower())
        i += 1
    return "".join(out)


def _int_grammar(base: int):
    digits = "0123456789abcdef"[:base]
    d = Set(frozenset(digits + digits.upper()))
    ws = Set(frozenset(" \t\n\r\f\v"))
    sign = Rep(Set(frozenset("+-")), 0, 1)
    body = Cat((d, Rep(Cat((Rep(Set(frozenset("_")), 0, 1), d)), 0, None)))
    pre: Any = Cat(())
    if base == 16:
        pre = Rep(Cat((Set(frozenset("0")), Set(frozenset("xX")), Rep(Set(frozenset("_")), 0, 1))), 0, 1)
    return Cat((Rep(ws, 0, None), sign, pre, body, Rep(ws, 0, None)))


INT_GRAMMAR = {10: _int_grammar(10), 16: _int_grammar(16)}


# --------------------------------------------------------------------------- automata helpers
def _alphabet(langs: Sequence[Lang]) -> List[Any]:
    sets: List[Set] = []
    for l in langs:
        sets.extend(l.sets())
    return rx.alphabet_for(sets, [])


def uniform(lang_ast: Any, pred_ast: Any) -> Optional[bool]:
    """True: L(lang) ⊆ L(pred); False: L(lang) ∩ L(pred) = ∅; None: neither"""
    A, B = Lang(lang_ast), Lang(pred_ast)
    letters = _alphabet([A, B])
    start = (A.init(), B.init())
    seen = {start}
    stack = [start]
    some_in = some_out = False
    while stack:
        a, b = stack.pop()
        if A.acc(a):
            if B.acc(b):
                some_in = True
            else:
                some_out = True
            if some_in and some_out:
                return None
        for x in letters:
            a2 = A.step(a, x)
            if not a2:
                continue
            st = (a2, B.step(b, x))
            if st not in seen:
                seen.add(st)
                stack.append(st)
    if some_in and not some_out:
        return True
    if some_out and not some_in:
        return False
    if not some_in and not some_out:
        return False          # empty language: vacuous
    return None


def count_range(lang_ast: Any, needle: str, cap: int) -> Tuple[int, int]:
    """(min, max) number of (possibly overlapping) occurrences of needle over L(lang), max capped at cap"""
    A = Lang(lang_ast)
    letters = _alphabet([A, Lang(_lit_ast(needle))])
    n = len(needle)
    # KMP automaton over representative letters
    def kstep(state: int, ch: str) -> Tuple[int, int]:
        s = needle[:state] + ch
        hit = 0
        while s and not needle.startswith(s):
            s = s[1:]
        if s == needle:
            hit = 1
            s = s[1:]
            while s and not needle.startswith(s):
                s = s[1:]
        return len(s), hit
    start = (A.init(), 0, 0)
    seen = {start}
    stack = [start]
    lo, hi = None, None
    while stack:
        a, k, c = stack.pop()
        if A.acc(a):
            lo = c if lo is None else min(lo, c)
            hi = c if hi is None else max(hi, c)
        for x in letters:
            a2 = A.step(a, x)
            if not a2:
                continue
            if isinstance(x, str) and x in needle:
                k2, hit = kstep(k, x)
            else:
                k2, hit = 0, 0
            st = (a2, k2, min(c + hit, cap))
            if st not in seen:
                seen.add(st)
                stack.append(st)
    return (lo or 0, hi or 0)


def sample(ast: Any, variant: int = 0) -> str:
    """one concrete member of L(ast) (short for variant 0, longer for variant 1/2)"""
    if isinstance(ast, Set):
        if not ast.neg:
            cs = sorted(ast.chars)
            return cs[variant % len(cs)]
        for c in "q~Zz9@!":
            if c not in ast.chars:
                return c
        return "é"
    if isinstance(ast, Cat):
        return "".join(sample(x, variant) for x in ast.items)
    if isinstance(ast, Alt):
        return sample(ast.items[variant % len(ast.items)], variant)
    if isinstance(ast, (Grp, rx.Avoid)):
        return sample(ast.node, variant)
    if isinstance(ast, Rep):
        n = ast.lo
        if variant and (ast.hi is None or ast.hi > ast.lo):
            n = ast.lo + variant + (1 if ast.lo == 0 else 0)
            if ast.hi is not None:
                n = min(n, ast.hi)
        return "".join(sample(ast.node, variant + i) for i in range(n))
    raise Unsupported(f"sample of {type(ast).__name__}")


def chars_at(lang_ast: Any, k: int):
    """labels (character classes) an instance can have at index k (k >= 0 from the start, k < 0 from the end);
    None if some instance is too short"""
    L = Lang(lang_ast)
    nfa = L.nfa
    n = nfa.n
    # forward / backward epsilon closures
    fwd_eps = nfa.eps
    rev_eps: Dict[int, List[int]] = {}
    for a, bs in nfa.eps.items():
        for b in bs:
            rev_eps.setdefault(b, []).append(a)
    rev_tr: Dict[int, List[Tuple[Any, int]]] = {}
    for a, lst in nfa.tr.items():
        for lab, b in lst:
            rev_tr.setdefault(b, []).append((lab, a))

    def close(S, eps):
        st = list(S)
        out = set(S)
        while st:
            q = st.pop()
            for r in eps.get(q, ()):
                if r not in out:
                    out.add(r)
                    st.append(r)
        return out

    def reach_all(start, eps, tr):
        seen = close({start}, eps)
        st = list(seen)
        while st:
            q = st.pop()
            for lab, r in tr.get(q, ()):
                for r2 in close({r}, eps):
                    if r2 not in seen:
                        seen.add(r2)
                        st.append(r2)
        return seen
    from_start = reach_all(nfa.start, fwd_eps, nfa.tr)
    to_final = reach_all(nfa.final, rev_eps, rev_tr)
    live = from_start & to_final
    if k >= 0:
        eps, tr, origin, other_end = fwd_eps, nfa.tr, nfa.start, nfa.final
    else:
        eps, tr, origin, other_end = rev_eps, rev_tr, nfa.final, nfa.start
    depth = k if k >= 0 else -k - 1
    cur = close({origin}, eps) & live
    for _ in range(depth):
        if other_end in cur:
            return None
        nxt = set()
        for q in cur:
            for lab, r in tr.get(q, ()):
                if r in live and isinstance(lab, Set):
                    nxt |= close({r}, eps) & live
        cur = nxt
    if other_end in cur or not cur:
        return None
    labels = []
    for q in cur:
        for lab, r in tr.get(q, ()):
            if r in live and isinstance(lab, Set) and lab not in labels:
                labels.append(lab)
    return labels or None
