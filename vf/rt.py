"""Run-time support for the mechanically instrumented JASM modules (imported there as __pyvc__).

Every function is the identity on concrete data:
    comp(f, xs)            == [f(x) for x in xs]
    join(sep, xs)          == sep.join(xs)
    for_app(t, f, xs)      == (t.append(f(x)) for x in xs; t)
    b_<builtin>(...)       == <builtin>(...)
The repository's own test-suite is run against the instrumented modules in the thorough tier
to check exactly that.
"""
from __future__ import annotations

import builtins
import copy as _copy
import itertools
import re as _re
from typing import Any

from . import pyvc
from .pyvc import Name, SymBool, SymInt, SymPerms, SymSeq, Unsupported, ctx
from .rx import Big

COUNTS = {"comp": 0, "join": 0, "for_app": 0, "builtin": 0, "symbolic": 0}


def _is_sym(x) -> bool:
    return isinstance(x, (SymSeq, SymPerms, SymInt, Name, SymBool)) or type(x).__name__ in ("SymStr",)


# ---- T2
class GenList(list):
    """value of a generator expression on concrete data: the list of its items that can also be consumed with next()
    (laziness is not modelled: the items are computed at once, in order)"""
    def __next__(self):
        it = self.__dict__.get("_it")
        if it is None:
            it = self.__dict__["_it"] = list.__iter__(self)
        return next(it)


def comp(f, xs, cond=None, kind="list"):
    COUNTS["comp"] += 1
    if isinstance(xs, SymSeq):
        COUNTS["symbolic"] += 1
        c0 = ctx()
        before = (c0.pos, len(c0.pc))
        conditional = getattr(xs, "conditional", False)
        if cond is not None:
            c = cond(xs.elem)
            if c is True and not conditional:
                pass          # every element passes (decided for the generic element, no per-element choice involved)
            elif c is True:
                # the generic element was shaped by a per-element choice: it passes, others may not
                r = SymSeq(xs.ident + "|filter", f(xs.elem), 0, root=xs.root + "|filter", perm_of=xs.perm_of)
                r.filtered = True
                r.conditional = True
                return r
            elif c is False and conditional:
                # the generic element of the FILTERED sequence is an arbitrary element that passes the
                # filter: a path on which the generic element fails it says nothing about the result
                raise pyvc.Infeasible()
            else:
                raise Unsupported("comprehension filter on a symbolic sequence is not decided")
        r = SymSeq(xs.ident + "'", f(xs.elem), xs.min_len, root=xs.root, perm_of=xs.perm_of)
        r.conditional = conditional or (c0.pos, len(c0.pc)) != before
        return r
    if isinstance(xs, SymPerms):
        COUNTS["symbolic"] += 1
        if cond is not None:
            raise Unsupported("filter over permutations")
        s = xs.seq
        gen = SymSeq("π(" + s.ident + ")", s.elem, s.min_len, root="π(" + s.root + ")", perm_of=s)
        # a sequence (over all permutations) whose generic element is the generic permutation
        return SymSeq("perms(" + s.ident + ")", f(gen), 1, root="perms(" + s.root + ")")
    if cond is None:
        out = [f(x) for x in xs]
    else:
        out = [f(x) for x in xs if cond(x)]
    if kind == "set":
        return set(out)
    if kind == "gen":
        return GenList(out)
    return out


def flat(xss):
    """concatenation of the chunks ([E for x in S for y in T])"""
    COUNTS["comp"] += 1
    if isinstance(xss, SymSeq):
        if isinstance(xss.elem, tuple):
            xss.elem = list(xss.elem)
        if not isinstance(xss.elem, list):
            raise Unsupported("nested comprehension whose inner part is not a concrete-length list")
        xss.flatten = True
        return xss
    out = []
    for ys in xss:
        if isinstance(ys, SymSeq):
            out.append(Splice(ys))      # all elements of that chunk, in order, at this position
        else:
            out.extend(ys)
    return out


# ---- T3
def join(sep, xs):
    COUNTS["join"] += 1
    if isinstance(xs, SymSeq):
        COUNTS["symbolic"] += 1
        if not isinstance(sep, str) or isinstance(sep, Name):
            raise Unsupported("join with a symbolic separator")
        if not isinstance(xs.elem, str):
            raise Unsupported("join over non-string elements")
        c = ctx()
        ident = f"join({sep!r},{xs.ident})"
        m = c.table.new("big", ident, sep=sep, template=str.__str__(xs.elem) if isinstance(xs.elem, Name) else xs.elem,
                        seq=xs.root, min_len=xs.min_len)
        return m.text
    if type(xs) is list and any(isinstance(e, Splice) for e in xs):
        # a concrete list with placeholders for "all elements of a symbolic sequence": with the empty separator the text is
        # the concatenation of the parts (a possibly empty sequence would need separator bookkeeping otherwise)
        COUNTS["symbolic"] += 1
        if sep != "" or isinstance(sep, Name):
            raise Unsupported("join with a non-empty separator over a list containing a spliced symbolic sequence")
        return "".join(join("", e.seq) if isinstance(e, Splice) else e for e in xs)
    if isinstance(sep, str):
        return sep.join(xs)
    return sep.join(xs)


class Splice:
    """placeholder inside a concrete list: all elements of a symbolic sequence, in order, at this position"""

    def __init__(self, seq):
        self.seq = seq

    def __repr__(self):
        return f"<all of {self.seq.ident}>"

    def render(self, c):
        return repr(self)


def extend(target, xs):
    COUNTS["join"] += 1
    if isinstance(xs, SymSeq):
        COUNTS["symbolic"] += 1
        if isinstance(target, SymSeq):
            raise Unsupported("extend of a symbolic sequence")
        target.append(Splice(xs))
        return None
    return target.extend(xs)


# ---- T1 (append form)
def for_app(target, f, xs, method="append"):
    COUNTS["for_app"] += 1
    if isinstance(xs, (SymSeq, SymPerms)):
        COUNTS["symbolic"] += 1
        if isinstance(target, SymSeq) or len(target) != 0:
            raise Unsupported("append-loop over a symbolic sequence into a non-empty list")
        r = comp(f, xs)
        if method == "extend":
            if not isinstance(r.elem, list):
                raise Unsupported("extend-loop whose chunk is not a list")
            r.flatten = True      # the sequence is the concatenation of the chunks
        return r
    for x in xs:
        if method == "extend":
            extend(target, f(x))
        else:
            getattr(target, method)(f(x))
    return target


# ---- T1 (general form)
def assert_(cond, msg):
    """an `assert C, M` folded into an expression"""
    if not cond:
        m = msg()
        raise AssertionError(m) if m is not None else AssertionError()
    return None


_NOCAUSE = object()


def raise_(exc, cause=_NOCAUSE):
    """a `raise E [from C]` folded into an expression"""
    if cause is _NOCAUSE:
        raise exc
    raise exc from cause


_HAVOC = [0]


def havoc(name, old):
    """value of a loop accumulator before a generic iteration / after a loop over a symbolic sequence: an unknown integer"""
    if isinstance(old, bool) or not isinstance(old, int):
        raise Unsupported(f"accumulator {name} of type {type(old).__name__} updated in a loop over a symbolic sequence")
    import z3
    _HAVOC[0] += 1
    return SymInt(z3.Int(f"acc!{name}!{_HAVOC[0]}"), f"acc({name})")


def for_each(xs, body, loop_id, accs=False, mut=None):
    """returns True when the loop ran over a symbolic sequence (the caller then havocs the accumulators)"""
    COUNTS["for_app"] += 1
    if isinstance(xs, SymSeq):
        COUNTS["symbolic"] += 1
        if mut:
            lc0 = getattr(ctx(), "loop_contracts", {}).get(loop_id.split(":")[1])
            cov = getattr(lc0, "covers", ()) or ()
            left = [] if cov == "*" else sorted(set(x.strip() for x in mut.split(",")) - set(cov))
            if left:
                raise Unsupported(f"loop {loop_id} over a symbolic sequence mutates the local container(s) {', '.join(left)}: their "
                                  "contents at a generic iteration are unknown (no loop contract covers them)")
        c = ctx()
        lc = getattr(c, "loop_contracts", {}).get(loop_id.split(":")[1])
        if lc is None:
            raise Unsupported(f"loop {loop_id} over a symbolic sequence has no loop contract")
        # inductive step: establish Inv(k) for a generic k, run the body on element k, check Inv(k+1)
        lc.establish(xs, "k")
        if accs:
            body(xs.elem, True)
        else:
            body(xs.elem)
        lc.check(xs, "k+1")
        # exit: continue after the loop with Inv(len)
        lc.establish(xs, "len")
        return True
    for x in xs:
        body(x)
    return False


# ---- T1 (search form)
class _NotFound:
    def __repr__(self):
        return "NOTFOUND"


NOTFOUND = _NotFound()


class SymEnum:
    """enumerate(S) for a symbolic sequence S"""

    def __init__(self, seq, start=0):
        self.seq, self.start = seq, start

    def _unsup(self, *a, **k):
        raise Unsupported("native iteration over enumerate() of a symbolic sequence")

    __iter__ = __next__ = __len__ = __getitem__ = _unsup


def search(xs, cond, value):
    """first element satisfying cond -> (value(element),) ; none -> NOTFOUND"""
    COUNTS["for_app"] += 1
    if isinstance(xs, (SymSeq, SymEnum)):
        COUNTS["symbolic"] += 1
        import z3
        c = ctx()
        seq = xs.seq if isinstance(xs, SymEnum) else xs
        k = SymInt(z3.Int("first!" + seq.root), "first(" + seq.root + ")")
        elem = seq.elem
        gen = (k + xs.start if xs.start else k, elem) if isinstance(xs, SymEnum) else elem
        hit = cond(gen)
        if isinstance(hit, SymBool):
            found = c.branch(hit.t)
        else:
            found = bool(hit) and bool(seq)      # every element satisfies cond: the first one, if any
            if found:
                pyvc.assume(k.t == 0)
        if found:
            # ghost: k is the LEAST index whose element satisfies cond (loop invariant of a search loop:
            # "no earlier element satisfied cond")
            pyvc.assume(z3.And(k.t >= 0, k.t < z3.Int("len!" + seq.root)))
            c.note("search-found", {"seq": seq.root, "index": "first!" + seq.root, "meaning": "least index whose element satisfies the condition"})
            return (value(gen),)
        c.note("search-none", {"seq": seq.root, "meaning": "no element satisfies the condition"})
        return NOTFOUND
    for x in xs:
        if cond(x):
            return (value(x),)
    return NOTFOUND


# ---- builtins on proxies
def _native_marked(x) -> bool:
    """a native str (not a proxy class) that carries marker characters: the product of an f-string / concatenation of proxies"""
    if type(x) is not str:
        return False
    from .markers import is_marker_char
    return any(is_marker_char(c) for c in x)


# str methods whose answer on a native string WITH markers is computed on the literal text only; exact when the opaque parts are
# atoms that cannot contribute: the argument is literal text made of characters no opaque name may contain (the contracts'
# precondition on names: no separator, no regex metacharacter, no blank)
_NAME_FREE = set(",|()[]{}?*+\\^$\t\n ")


def _literal_edges(text):
    """(literal prefix, literal suffix) of native text with markers"""
    from .markers import is_marker_char
    t = str.__str__(text)
    i = 0
    while i < len(t) and not is_marker_char(t[i]):
        i += 1
    j = len(t)
    while j > 0 and not is_marker_char(t[j - 1]):
        j -= 1
    return t[:i], t[j:]


def _toks(x):
    return ctx().table.tokens(str.__str__(x))


def _edge_test(obj, name, arg):
    """startswith / endswith of native marked text, decided token by token (a marker equals itself only; two aligned literal
    characters that differ decide False); None = not decided"""
    if type(arg) is tuple:
        rs = [_edge_test(obj, name, a_) for a_ in arg]
        if any(r is True for r in rs):
            return True
        if all(r is False for r in rs):
            return False
        return None
    if not isinstance(arg, str) or (type(arg) is not str and not hasattr(arg, "ident")):
        return None
    to, ta = _toks(obj), _toks(arg)
    if name == "endswith":
        to, ta = to[::-1], ta[::-1]
    for i, a_ in enumerate(ta):
        if i >= len(to):
            return None
        o_ = to[i]
        if isinstance(a_, str) and isinstance(o_, str):
            if a_ != o_:
                return False
        elif a_ is o_:
            continue
        else:
            return None
    return True


def _sub_test(obj, arg):
    """`arg in obj` for native marked text: True when the token sequence of arg occurs in obj"""
    to, ta = _toks(obj), _toks(arg)
    n = len(ta)
    if n == 0:
        return True
    same = lambda x, y: (x == y) if isinstance(x, str) and isinstance(y, str) else (x is y)
    for i in range(len(to) - n + 1):
        if all(same(to[i + j], ta[j]) for j in range(n)):
            return True
    return None


def meth(obj, name):
    """T5: obj.name for a method name that str has"""
    if _native_marked(obj):
        def guarded(*a, **k):
            lits = [x for x in a if isinstance(x, str)]
            if name in ("startswith", "endswith") and len(a) == 1 and not k:
                r = _edge_test(obj, name, a[0])
                if r is not None:
                    return r
            if name in ("replace", "split", "rsplit", "partition", "rpartition", "count") and lits \
                    and type(lits[0]) is str and lits[0] and not _native_marked(lits[0]) and set(lits[0]) <= _NAME_FREE \
                    and all(type(x) is str and not _native_marked(x) for x in lits[1:]):
                # the needle consists of characters that no opaque name contains: every occurrence lies in the literal text
                return getattr(str, name)(obj, *a, **k)
            raise Unsupported(f"str.{name} on native text with opaque symbolic parts")
        return guarded
    return getattr(obj, name)


def contains(container, item):
    """T5: `item in container`"""
    if _native_marked(container):
        if type(item) is str and item and not _native_marked(item) and set(item) <= _NAME_FREE:
            return str.__contains__(container, item)
        if isinstance(item, str) and (type(item) is str or hasattr(item, "ident")) and _sub_test(container, item):
            return True
        raise Unsupported("`in` on native text with opaque symbolic parts")
    if type(container) is str and (_native_marked(item) or (isinstance(item, str) and type(item) is not str)):
        raise Unsupported("text with symbolic parts as the needle of `in`")
    return item in container


def is_bool(x, const):
    """T5: `x is True` / `x is False`"""
    if isinstance(x, SymBool):
        return x == const
    return x is const


def contains_ab(item, container):
    return contains(container, item)


def _marked_len(x):
    """len() of native text with markers: the literal characters plus one unknown per symbolic part"""
    import z3
    total = z3.IntVal(0)
    for t in ctx().table.tokens(x):
        if isinstance(t, str):
            total = total + 1
        else:
            v = z3.Int(f"len!{t.kind}:{t.ident}")
            lo = 1 if t.kind == "name" else 0
            if t.kind == "var":
                from . import sstr as _s
                lo = 0 if _s._nullable(_s._mast(t)) else 1
            pyvc.assume(v >= lo)
            total = total + v
    return SymInt(z3.simplify(total), "len(text)")


def _guard_native_marked(x, what):
    if _native_marked(x):
        raise Unsupported(f"{what} of native text with opaque symbolic parts")
    if type(x) in (list, tuple) and any(_native_marked(e) or _is_sym(e) for e in x):
        raise Unsupported(f"{what} over values with symbolic parts")


def b_type(*a, **k):
    """type(x): a proxy stands for a value of the built-in type it models"""
    if len(a) != 1 or k:
        return builtins.type(*a, **k)
    x = a[0]
    if isinstance(x, SymBool):
        return bool
    if isinstance(x, SymInt):
        return int
    if isinstance(x, str) and builtins.type(x) is not str and (hasattr(x, "segs") or hasattr(x, "ident")):
        return str
    if isinstance(x, (SymSeq, SymPerms)) or (isinstance(x, list) and hasattr(builtins.type(x), "sym_len")):
        return list
    return builtins.type(x)


def b_isinstance(x, t):
    if isinstance(x, SymBool):
        ts = t if builtins.type(t) is tuple else (t,)
        return any(c in (bool, int, object) for c in ts)
    return builtins.isinstance(x, t)


def b_sorted(xs, **k):
    _guard_native_marked(xs if type(xs) in (list, tuple) else builtins.list(xs) if not _is_sym(xs) else [xs], "sorted()")
    if _is_sym(xs):
        raise Unsupported("sorted() of a symbolic sequence")
    return builtins.sorted(xs, **k)


def _text_sym(x) -> bool:
    return _native_marked(x) or (isinstance(x, str) and (hasattr(x, "segs") or isinstance(x, Name))) or isinstance(x, (SymSeq, SymPerms))


def _minmax(what, fn, a, k):
    # symbolic integers compare through their own (forking) operators; text with symbolic parts has no order
    for x in a:
        if _text_sym(x) or (type(x) in (list, tuple) and any(_text_sym(e) for e in x)):
            raise Unsupported(f"{what}() over text with symbolic parts")
    return fn(*a, **k)


def b_min(*a, **k):
    return _minmax("min", builtins.min, a, k)


def b_max(*a, **k):
    return _minmax("max", builtins.max, a, k)


def b_len(x):
    COUNTS["builtin"] += 1
    if hasattr(type(x), "sym_len") and not isinstance(x, str):
        COUNTS["symbolic"] += 1
        return x.sym_len()
    if _native_marked(x):
        COUNTS["symbolic"] += 1
        return _marked_len(x)
    if isinstance(x, SymSeq):
        return SymInt(__import__("z3").Int("len!" + x.root))
    if type(x) is list and any(isinstance(e, Splice) for e in x):
        # concrete elements + all elements of the spliced symbolic sequences
        import z3
        COUNTS["symbolic"] += 1
        t = z3.IntVal(sum(1 for e in x if not isinstance(e, Splice)))
        for e in x:
            if isinstance(e, Splice):
                t = t + z3.Int("len!" + e.seq.root)
                pyvc.assume(z3.Int("len!" + e.seq.root) >= e.seq.min_len)
        return SymInt(t)
    if _is_sym(x):
        if hasattr(x, "sym_len"):
            COUNTS["symbolic"] += 1
            return x.sym_len()
        raise Unsupported(f"len of {type(x).__name__}")
    return builtins.len(x)


def b_list(x=()):
    COUNTS["builtin"] += 1
    if isinstance(x, SymSeq):
        return x
    if _is_sym(x):
        raise Unsupported(f"list() of {type(x).__name__}")
    return builtins.list(x)


def _shim_of(f):
    """a builtin handed over as a VALUE (map(list, xs), key=len) never went through the call rewriting T4: its shim stands in"""
    table = {builtins.list: b_list, builtins.tuple: b_list, builtins.str: b_str, builtins.len: b_len, builtins.int: b_int, builtins.bool: b_bool}
    try:
        return table.get(f, f)
    except TypeError:       # unhashable callable
        return f


def b_map(f, *its):
    COUNTS["builtin"] += 1
    if len(its) == 1 and isinstance(its[0], (SymSeq, SymPerms)):
        return comp(_shim_of(f), its[0], kind="gen")
    if any(_is_sym(x) for x in its):
        raise Unsupported("map over several / unmodelled symbolic iterables")
    return builtins.map(f, *its)


def b_filter(pred, xs):
    COUNTS["builtin"] += 1
    if isinstance(xs, SymSeq):
        return comp(lambda x: x, xs, (lambda x: builtins.bool(x)) if pred is None else pred, kind="gen")
    if _is_sym(xs):
        raise Unsupported("filter over an unmodelled symbolic iterable")
    return builtins.filter(pred, xs)


def b_str(x=""):
    COUNTS["builtin"] += 1
    return builtins.str(x)     # proxies implement __str__


def b_bool(x=False):
    COUNTS["builtin"] += 1
    return builtins.bool(x)    # proxies implement __bool__


def b_int(x=0, base=None):
    COUNTS["builtin"] += 1
    if isinstance(x, SymInt):
        return x
    if isinstance(x, Name):
        if isinstance(x, pyvc.HexStr) and not x.with_0x and base == 16:
            return SymInt(__import__("z3").Int("hexval!" + x.ident), "hexval(" + x.ident + ")")
        if isinstance(x, pyvc.HexStem):
            if base == 16:
                return SymInt(__import__("z3").Int("hexval!" + x.ident), "hexval(" + x.ident + ")")
            raise Unsupported("int() of a hex stem in another base")
        # any other opaque literal name is outside the integer-literal grammar by its category
        if x.category in ("plain", "stem"):
            raise ValueError(f"invalid literal for int() with base {base}: {x!r}")
        raise Unsupported("int() of an opaque name")
    if hasattr(x, "sym_int"):
        return x.sym_int(base)
    if _native_marked(x):
        raise Unsupported("int() of native text with opaque symbolic parts")
    if base is None:
        return builtins.int(x)
    return builtins.int(x, base)


def b_all(xs):
    COUNTS["builtin"] += 1
    if isinstance(xs, SymSeq):
        e = xs.elem
        if e is True:
            return True
        if e is False:
            return not bool(xs)
        raise Unsupported("all() over a symbolic sequence with a non-constant element")
    return builtins.all(xs)


def b_any(xs):
    COUNTS["builtin"] += 1
    if isinstance(xs, SymSeq):
        e = xs.elem
        if e is False:
            return False
        if e is True:
            return bool(xs)
        raise Unsupported("any() over a symbolic sequence with a non-constant element")
    return builtins.any(xs)


def b_enumerate(xs, start=0):
    COUNTS["builtin"] += 1
    if isinstance(xs, SymSeq):
        return SymEnum(xs, start)
    if _is_sym(xs):
        raise Unsupported("enumerate over a symbolic value")
    return builtins.enumerate(xs, start)


def b_permutations(xs, r=None):
    COUNTS["builtin"] += 1
    if isinstance(xs, SymSeq):
        if r is not None:
            # permutations(seq, len(seq)) is permutations(seq) (library contract): accepted when r IS the length of this sequence
            import z3
            full = isinstance(r, SymInt) and z3.simplify(r.t - z3.Int("len!" + xs.root)).eq(z3.IntVal(0))
            if not full:
                raise Unsupported("permutations(seq, r)")
        return SymPerms(xs)
    return itertools.permutations(xs, r)


def deepcopy(x, memo=None):
    COUNTS["builtin"] += 1
    return _copy.deepcopy(x, memo) if memo is not None else _copy.deepcopy(x)


# ---- re / regex shims (symre plugs in here)
def _has_markers(x) -> bool:
    """x is (or contains) text with symbolic parts: a structured string, an opaque name, or a native string that carries marker
    characters (the result of a native concatenation / f-string of proxies)"""
    from .markers import is_marker_char
    if isinstance(x, str):
        if hasattr(x, "segs") or (type(x) is not str and hasattr(x, "ident")):
            return True
        return any(is_marker_char(c) for c in str.__str__(x))
    if isinstance(x, (list, tuple)):
        return any(_has_markers(y) for y in x)
    return isinstance(x, (SymSeq,))


def _guarded(name, fn):
    def guarded(*a, **k):
        if any(_has_markers(x) for x in a) or any(_has_markers(x) for x in k.values()):
            raise Unsupported(f"{name} on text with symbolic parts is not modelled")
        return fn(*a, **k)
    guarded.__name__ = getattr(fn, "__name__", "guarded")
    return guarded


class _Re:
    """the `re` module as the instrumented code sees it (every import form is redirected here): match / search / split / fullmatch
    on structured strings go to symre, every other function refuses text with symbolic parts"""
    _native = _re
    _modname = "re"

    def __getattr__(self, name):
        attr = getattr(self._native, name)
        if callable(attr) and not isinstance(attr, type):
            return _guarded(f"{self._modname}.{name}", attr)
        return attr

    @staticmethod
    def _sym(s):
        if hasattr(s, "segs"):
            return True
        if _has_markers(s):
            # an opaque name, or native text carrying markers: the native engine would match against the marker payload
            raise Unsupported(f"regular expression applied to text with opaque symbolic parts ({getattr(s, 'ident', 'native concatenation')})")
        return False

    def match(self, pattern, string, flags=0):
        if self._sym(string):
            from . import symre
            return symre.match(pattern, string, flags)
        return _re.match(pattern, string, flags)

    def search(self, pattern, string, flags=0):
        if self._sym(string):
            from . import symre
            return symre.search(pattern, string, flags)
        return _re.search(pattern, string, flags)

    def split(self, pattern, string, maxsplit=0, flags=0):
        if self._sym(string):
            from . import symre
            return symre.split(pattern, string, maxsplit, flags)
        return _re.split(pattern, string, maxsplit, flags)

    def fullmatch(self, pattern, string, flags=0):
        if self._sym(string):
            from . import symre
            return symre.match("(?:" + pattern + ")$", string, flags)
        return _re.fullmatch(pattern, string, flags)

    def compile(self, pattern, flags=0):
        if _has_markers(pattern):
            raise Unsupported("re.compile of a pattern with symbolic parts")
        return _Compiled(self, pattern, flags)


class _Compiled:
    """re.compile(p): the same functions with the pattern bound (precompiled patterns are a common refactoring)"""

    def __init__(self, shim, pattern, flags):
        self._shim, self.pattern, self.flags = shim, pattern, flags
        self._real = _re.compile(pattern, flags)

    def match(self, string, *a):
        return self._shim.match(self.pattern, string, self.flags) if _Re._sym(string) else self._real.match(string, *a)

    def search(self, string, *a):
        return self._shim.search(self.pattern, string, self.flags) if _Re._sym(string) else self._real.search(string, *a)

    def fullmatch(self, string, *a):
        return self._shim.fullmatch(self.pattern, string, self.flags) if _Re._sym(string) else self._real.fullmatch(string, *a)

    def split(self, string, maxsplit=0):
        return self._shim.split(self.pattern, string, maxsplit, self.flags) if _Re._sym(string) else self._real.split(string, maxsplit)

    def __getattr__(self, name):
        attr = getattr(self._real, name)
        if callable(attr):
            return _guarded(f"compiled pattern .{name}", attr)
        return attr


class _RegexCompiled:
    def __init__(self, real):
        self._real = real

    def __getattr__(self, name):
        attr = getattr(self._real, name)
        if callable(attr):
            return _guarded(f"compiled regex pattern .{name}", attr)
        return attr


class _Regex:
    """the third-party `regex` module as the instrumented code sees it: native on concrete text, Unsupported on text with symbolic
    parts (the contracts that reach the engine call install their own stub for the module)"""

    def __init__(self):
        try:
            import regex as _regex
        except Exception:  # noqa
            _regex = None
        self._native = _regex

    def __getattr__(self, name):
        if self._native is None:
            raise AttributeError(name)
        attr = getattr(self._native, name)
        if name == "compile":
            def compile_(*a, **k):
                if any(_has_markers(x) for x in a):
                    raise Unsupported("regex.compile of a pattern with symbolic parts")
                return _RegexCompiled(attr(*a, **k))
            return compile_
        if callable(attr) and not isinstance(attr, type):
            return _guarded(f"regex.{name}", attr)
        return attr


re = _Re()
regex = _Regex()
