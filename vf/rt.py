"""Run-time support for the mechanically instrumented JASM modules (imported there as __pyvc__).

Every function is the identity on concrete data:
    comp(f, xs)            == [f(x) for x in xs]
    join(sep, xs)          == sep.join(xs)
    for_app(t, f, xs)      == (t.append(f(x)) for x in xs; t)
    b_<builtin>(...)       == <builtin>(...)
The repository's own test-suite is run against the instrumented modules in the thorough tier
to check exactly that.
"""
from __future__ import annotations

import builtins
import copy as _copy
import itertools
import re as _re
from typing import Any

from . import pyvc
from .pyvc import Name, SymBool, SymInt, SymPerms, SymSeq, Unsupported, ctx
from .rx import Big

COUNTS = {"comp": 0, "join": 0, "for_app": 0, "builtin": 0, "symbolic": 0}


def _is_sym(x) -> bool:
    return isinstance(x, (SymSeq, SymPerms, SymInt, Name, SymBool)) or type(x).__name__ in ("SymStr",)


# ---- T2
class GenList(list):
    """value of a generator expression on concrete data: the list of its items that can also be consumed with next()
    (laziness is not modelled: the items are computed at once, in order)"""
    def __next__(self):
        it = self.__dict__.get("_it")
        if it is None:
            it = self.__dict__["_it"] = list.__iter__(self)
        return next(it)


def comp(f, xs, cond=None, kind="list"):
    COUNTS["comp"] += 1
    if isinstance(xs, SymSeq):
        COUNTS["symbolic"] += 1
        c0 = ctx()
        before = (c0.pos, len(c0.pc))
        conditional = getattr(xs, "conditional", False)
        if cond is not None:
            c = cond(xs.elem)
            if c is True and not conditional:
                pass          # every element passes (decided for the generic element, no per-element choice involved)
            elif c is True:
                # the generic element was shaped by a per-element choice: it passes, others may not
                r = SymSeq(xs.ident + "|filter", f(xs.elem), 0, root=xs.root + "|filter", perm_of=xs.perm_of)
                r.filtered = True
                r.conditional = True
                return r
            elif c is False and conditional:
                # the generic element of the FILTERED sequence is an arbitrary element that passes the
                # filter: a path on which the generic element fails it says nothing about the result
                raise pyvc.Infeasible()
            else:
                raise Unsupported("comprehension filter on a symbolic sequence is not decided")
        r = SymSeq(xs.ident + "'", f(xs.elem), xs.min_len, root=xs.root, perm_of=xs.perm_of)
        r.conditional = conditional or (c0.pos, len(c0.pc)) != before
        return r
    if isinstance(xs, SymPerms):
        COUNTS["symbolic"] += 1
        if cond is not None:
            raise Unsupported("filter over permutations")
        s = xs.seq
        gen = SymSeq("π(" + s.ident + ")", s.elem, s.min_len, root="π(" + s.root + ")", perm_of=s)
        # a sequence (over all permutations) whose generic element is the generic permutation
        return SymSeq("perms(" + s.ident + ")", f(gen), 1, root="perms(" + s.root + ")")
    if cond is None:
        out = [f(x) for x in xs]
    else:
        out = [f(x) for x in xs if cond(x)]
    if kind == "set":
        return set(out)
    if kind == "gen":
        return GenList(out)
    return out


def flat(xss):
    """concatenation of the chunks ([E for x in S for y in T])"""
    COUNTS["comp"] += 1
    if isinstance(xss, SymSeq):
        if not isinstance(xss.elem, list):
            raise Unsupported("nested comprehension whose inner part is not a concrete-length list")
        xss.flatten = True
        return xss
    return [y for ys in xss for y in ys]


# ---- T3
def join(sep, xs):
    COUNTS["join"] += 1
    if isinstance(xs, SymSeq):
        COUNTS["symbolic"] += 1
        if not isinstance(sep, str) or isinstance(sep, Name):
            raise Unsupported("join with a symbolic separator")
        if not isinstance(xs.elem, str):
            raise Unsupported("join over non-string elements")
        c = ctx()
        ident = f"join({sep!r},{xs.ident})"
        m = c.table.new("big", ident, sep=sep, template=str.__str__(xs.elem) if isinstance(xs.elem, Name) else xs.elem,
                        seq=xs.root, min_len=xs.min_len)
        return m.text
    if type(xs) is list and any(isinstance(e, Splice) for e in xs):
        # a concrete list with placeholders for "all elements of a symbolic sequence": with the empty separator the text is
        # the concatenation of the parts (a possibly empty sequence would need separator bookkeeping otherwise)
        COUNTS["symbolic"] += 1
        if sep != "" or isinstance(sep, Name):
            raise Unsupported("join with a non-empty separator over a list containing a spliced symbolic sequence")
        return "".join(join("", e.seq) if isinstance(e, Splice) else e for e in xs)
    if isinstance(sep, str):
        return sep.join(xs)
    return sep.join(xs)


class Splice:
    """placeholder inside a concrete list: all elements of a symbolic sequence, in order, at this position"""

    def __init__(self, seq):
        self.seq = seq

    def __repr__(self):
        return f"<all of {self.seq.ident}>"

    def render(self, c):
        return repr(self)


def extend(target, xs):
    COUNTS["join"] += 1
    if isinstance(xs, SymSeq):
        COUNTS["symbolic"] += 1
        if isinstance(target, SymSeq):
            raise Unsupported("extend of a symbolic sequence")
        target.append(Splice(xs))
        return None
    return target.extend(xs)


# ---- T1 (append form)
def for_app(target, f, xs, method="append"):
    COUNTS["for_app"] += 1
    if isinstance(xs, (SymSeq, SymPerms)):
        COUNTS["symbolic"] += 1
        if isinstance(target, SymSeq) or len(target) != 0:
            raise Unsupported("append-loop over a symbolic sequence into a non-empty list")
        r = comp(f, xs)
        if method == "extend":
            if not isinstance(r.elem, list):
                raise Unsupported("extend-loop whose chunk is not a list")
            r.flatten = True      # the sequence is the concatenation of the chunks
        return r
    for x in xs:
        if method == "extend":
            extend(target, f(x))
        else:
            getattr(target, method)(f(x))
    return target


# ---- T1 (general form)
def for_each(xs, body, loop_id):
    COUNTS["for_app"] += 1
    if isinstance(xs, SymSeq):
        COUNTS["symbolic"] += 1
        c = ctx()
        lc = getattr(c, "loop_contracts", {}).get(loop_id.split(":")[1])
        if lc is None:
            raise Unsupported(f"loop {loop_id} over a symbolic sequence has no loop contract")
        # inductive step: establish Inv(k) for a generic k, run the body on element k, check Inv(k+1)
        lc.establish(xs, "k")
        body(xs.elem)
        lc.check(xs, "k+1")
        # exit: continue after the loop with Inv(len)
        lc.establish(xs, "len")
        return
    for x in xs:
        body(x)


# ---- T1 (search form)
class _NotFound:
    def __repr__(self):
        return "NOTFOUND"


NOTFOUND = _NotFound()


class SymEnum:
    """enumerate(S) for a symbolic sequence S"""

    def __init__(self, seq, start=0):
        self.seq, self.start = seq, start


def search(xs, cond, value):
    """first element satisfying cond -> (value(element),) ; none -> NOTFOUND"""
    COUNTS["for_app"] += 1
    if isinstance(xs, (SymSeq, SymEnum)):
        COUNTS["symbolic"] += 1
        import z3
        c = ctx()
        seq = xs.seq if isinstance(xs, SymEnum) else xs
        k = SymInt(z3.Int("first!" + seq.root), "first(" + seq.root + ")")
        elem = seq.elem
        gen = (k + xs.start if xs.start else k, elem) if isinstance(xs, SymEnum) else elem
        hit = cond(gen)
        if isinstance(hit, SymBool):
            found = c.branch(hit.t)
        else:
            found = bool(hit) and bool(seq)      # every element satisfies cond: the first one, if any
            if found:
                pyvc.assume(k.t == 0)
        if found:
            # ghost: k is the LEAST index whose element satisfies cond (loop invariant of a search loop:
            # "no earlier element satisfied cond")
            pyvc.assume(z3.And(k.t >= 0, k.t < z3.Int("len!" + seq.root)))
            c.note("search-found", {"seq": seq.root, "index": "first!" + seq.root, "meaning": "least index whose element satisfies the condition"})
            return (value(gen),)
        c.note("search-none", {"seq": seq.root, "meaning": "no element satisfies the condition"})
        return NOTFOUND
    for x in xs:
        if cond(x):
            return (value(x),)
    return NOTFOUND


# ---- builtins on proxies
def b_len(x):
    COUNTS["builtin"] += 1
    if isinstance(x, SymSeq):
        return SymInt(__import__("z3").Int("len!" + x.root))
    if type(x) is list and any(isinstance(e, Splice) for e in x):
        # concrete elements + all elements of the spliced symbolic sequences
        import z3
        COUNTS["symbolic"] += 1
        t = z3.IntVal(sum(1 for e in x if not isinstance(e, Splice)))
        for e in x:
            if isinstance(e, Splice):
                t = t + z3.Int("len!" + e.seq.root)
                pyvc.assume(z3.Int("len!" + e.seq.root) >= e.seq.min_len)
        return SymInt(t)
    if _is_sym(x):
        if hasattr(x, "sym_len"):
            return x.sym_len()
        raise Unsupported(f"len of {type(x).__name__}")
    return builtins.len(x)


def b_list(x=()):
    COUNTS["builtin"] += 1
    if isinstance(x, SymSeq):
        return x
    if _is_sym(x):
        raise Unsupported(f"list() of {type(x).__name__}")
    return builtins.list(x)


def b_str(x=""):
    COUNTS["builtin"] += 1
    return builtins.str(x)     # proxies implement __str__


def b_bool(x=False):
    COUNTS["builtin"] += 1
    return builtins.bool(x)    # proxies implement __bool__


def b_int(x=0, base=None):
    COUNTS["builtin"] += 1
    if isinstance(x, SymInt):
        return x
    if isinstance(x, Name):
        if isinstance(x, pyvc.HexStr) and not x.with_0x and base == 16:
            return SymInt(__import__("z3").Int("hexval!" + x.ident), "hexval(" + x.ident + ")")
        if isinstance(x, pyvc.HexStem):
            if base == 16:
                return SymInt(__import__("z3").Int("hexval!" + x.ident), "hexval(" + x.ident + ")")
            raise Unsupported("int() of a hex stem in another base")
        # any other opaque literal name is outside the integer-literal grammar by its category
        if x.category in ("plain", "stem"):
            raise ValueError(f"invalid literal for int() with base {base}: {x!r}")
        raise Unsupported("int() of an opaque name")
    if hasattr(x, "sym_int"):
        return x.sym_int(base)
    if base is None:
        return builtins.int(x)
    return builtins.int(x, base)


def b_all(xs):
    COUNTS["builtin"] += 1
    if isinstance(xs, SymSeq):
        e = xs.elem
        if e is True:
            return True
        if e is False:
            return not bool(xs)
        raise Unsupported("all() over a symbolic sequence with a non-constant element")
    return builtins.all(xs)


def b_any(xs):
    COUNTS["builtin"] += 1
    if isinstance(xs, SymSeq):
        e = xs.elem
        if e is False:
            return False
        if e is True:
            return bool(xs)
        raise Unsupported("any() over a symbolic sequence with a non-constant element")
    return builtins.any(xs)


def b_enumerate(xs, start=0):
    COUNTS["builtin"] += 1
    if isinstance(xs, SymSeq):
        return SymEnum(xs, start)
    if _is_sym(xs):
        raise Unsupported("enumerate over a symbolic value")
    return builtins.enumerate(xs, start)


def b_permutations(xs, r=None):
    COUNTS["builtin"] += 1
    if isinstance(xs, SymSeq):
        if r is not None:
            raise Unsupported("permutations(seq, r)")
        return SymPerms(xs)
    return itertools.permutations(xs, r)


def deepcopy(x, memo=None):
    COUNTS["builtin"] += 1
    return _copy.deepcopy(x, memo) if memo is not None else _copy.deepcopy(x)


# ---- re shim (symre plugs in here)
class _Re:
    def __getattr__(self, name):
        return getattr(_re, name)

    @staticmethod
    def _sym(s):
        return hasattr(s, "segs")

    def match(self, pattern, string, flags=0):
        if self._sym(string):
            from . import symre
            return symre.match(pattern, string, flags)
        return _re.match(pattern, string, flags)

    def search(self, pattern, string, flags=0):
        if self._sym(string):
            from . import symre
            return symre.search(pattern, string, flags)
        return _re.search(pattern, string, flags)

    def split(self, pattern, string, maxsplit=0, flags=0):
        if self._sym(string):
            from . import symre
            return symre.split(pattern, string, maxsplit, flags)
        return _re.split(pattern, string, maxsplit, flags)

    def fullmatch(self, pattern, string, flags=0):
        if self._sym(string):
            from . import symre
            return symre.match("(?:" + pattern + ")$", string, flags)
        return _re.fullmatch(pattern, string, flags)

    def compile(self, pattern, flags=0):
        return _Compiled(self, pattern, flags)


class _Compiled:
    """re.compile(p): the same functions with the pattern bound (precompiled patterns are a common refactoring)"""

    def __init__(self, shim, pattern, flags):
        self._shim, self.pattern, self.flags = shim, pattern, flags
        self._real = _re.compile(pattern, flags)

    def match(self, string, *a):
        return self._shim.match(self.pattern, string, self.flags) if _Re._sym(string) else self._real.match(string, *a)

    def search(self, string, *a):
        return self._shim.search(self.pattern, string, self.flags) if _Re._sym(string) else self._real.search(string, *a)

    def fullmatch(self, string, *a):
        return self._shim.fullmatch(self.pattern, string, self.flags) if _Re._sym(string) else self._real.fullmatch(string, *a)

    def split(self, string, maxsplit=0):
        return self._shim.split(self.pattern, string, maxsplit, self.flags) if _Re._sym(string) else self._real.split(string, maxsplit)

    def __getattr__(self, name):
        attr = getattr(self._real, name)
        if callable(attr):
            def guarded(*a, **k):
                if any(_Re._sym(x) for x in a):
                    raise Unsupported(f"compiled pattern .{name} on a structured string")
                return attr(*a, **k)
            return guarded
        return attr


re = _Re()
