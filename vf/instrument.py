"""Mechanical AST instrumentation of the JASM sources, applied on every run to the files of
$JASM_REPO/src as they are on disk (nothing is copied or kept).  The ONLY differences between
the executed text and the file are the rewrites below, each the identity on concrete data:

  T1  for x in E: T.append(V)        ->  T = __pyvc__.for_app(T, lambda x: V, E)      (likewise extend)
  T2  [V for x in E if C] / (V for..) ->  __pyvc__.comp(lambda x: V, E, lambda x: C)
  T3  S.join(E)                      ->  __pyvc__.join(S, E)          L.extend(E) -> __pyvc__.extend(L, E)
  T4  len/int/str/list/bool/all/any/enumerate(...)  ->  __pyvc__.b_<name>(...)
      permutations(...)              ->  __pyvc__.b_permutations(...)
      re.match/search/split/fullmatch/compile -> __pyvc__.re.<name>   copy.deepcopy -> __pyvc__.deepcopy

`rewrites` counts what was rewritten per module (reported in the evidence).
"""
from __future__ import annotations

import ast
import importlib
import importlib.abc
import importlib.machinery
import importlib.util
import os
import sys
from typing import Dict, List

BUILTINS = {"len", "int", "str", "list", "bool", "all", "any", "enumerate", "map", "filter", "sorted", "min", "max", "type", "isinstance"}
# T5: methods that exist on str -- a call `x.m(...)` is routed through __pyvc__.meth(x, "m") so that a NATIVE string carrying markers
# (an f-string / concatenation of proxies) is never handed to a native str method (which would work on the marker payload)
STR_METHODS = {"lower", "upper", "strip", "lstrip", "rstrip", "split", "rsplit", "replace", "find", "rfind", "index", "rindex", "startswith",
               "endswith", "partition", "rpartition", "zfill", "ljust", "rjust", "center", "isdigit", "isalpha", "isalnum", "isdecimal",
               "isnumeric", "isspace", "islower", "isupper", "istitle", "isidentifier", "isascii", "isprintable", "removeprefix",
               "removesuffix", "count", "title", "capitalize", "casefold", "swapcase", "splitlines", "encode", "translate", "expandtabs",
               "format", "format_map"}
REWRITES: Dict[str, Dict[str, int]] = {}


class T(ast.NodeTransformer):
    def __init__(self, modname: str):
        self.counts = REWRITES.setdefault(modname, {"T1": 0, "T2": 0, "T3": 0, "T4": 0})
        self.shadow: List[set] = [set()]
        self.first_arg: List[str] = []
        self.func_nodes: List[ast.AST] = []
        self.loop_no = 0
        self.modname = modname

    def visit_FunctionDef(self, node):
        a = node.args.posonlyargs + node.args.args
        self.first_arg.append(a[0].arg if a else "")
        self.func_nodes.append(node)
        self.generic_visit(node)
        self.func_nodes.pop()
        self.first_arg.pop()
        return node

    def _fix_super(self, body):
        """zero-argument super() does not work inside the generated lambda: make it explicit"""
        fa = self.first_arg[-1] if self.first_arg else ""
        for n in ast.walk(body):
            if isinstance(n, ast.Call) and isinstance(n.func, ast.Name) and n.func.id == "super" and not n.args and fa:
                n.args = [ast.Name(id="__class__", ctx=ast.Load()), ast.Name(id=fa, ctx=ast.Load())]
        return body

    # scopes: do not rewrite a builtin name that the function rebinds (parameter / assignment)
    def _lam(self, target, body):
        body = self._fix_super(body)
        if isinstance(target, ast.Name):
            args = ast.arguments(posonlyargs=[], args=[ast.arg(arg=target.id)], kwonlyargs=[], kw_defaults=[], defaults=[])
            return ast.Lambda(args=args, body=body)
        # tuple target: lambda __t: (lambda a, b: body)(*__t)
        names = []

        def flat(t):
            if isinstance(t, ast.Name):
                names.append(t.id)
            elif isinstance(t, (ast.Tuple, ast.List)):
                for e in t.elts:
                    flat(e)
            else:
                raise NotImplementedError
        flat(target)
        if not all(isinstance(e, ast.Name) for e in target.elts):
            raise NotImplementedError
        inner = ast.Lambda(
            args=ast.arguments(posonlyargs=[], args=[ast.arg(arg=n) for n in names], kwonlyargs=[], kw_defaults=[], defaults=[]),
            body=body)
        outer = ast.Lambda(
            args=ast.arguments(posonlyargs=[], args=[ast.arg(arg="__t")], kwonlyargs=[], kw_defaults=[], defaults=[]),
            body=ast.Call(func=inner, args=[ast.Starred(value=ast.Name(id="__t", ctx=ast.Load()), ctx=ast.Load())], keywords=[]))
        return outer

    def _rt(self, name):
        return ast.Attribute(value=ast.Name(id="__pyvc__", ctx=ast.Load()), attr=name, ctx=ast.Load())

    def _comp(self, node, kind):
        if len(node.generators) == 2 and not any(g.is_async for g in node.generators) and not node.generators[0].ifs:
            # [E for x in S for y in T]  ==  flat([[E for y in T] for x in S])
            inner = ast.ListComp(elt=node.elt, generators=[node.generators[1]])
            outer = ast.ListComp(elt=inner, generators=[node.generators[0]])
            self.counts["T2"] += 1
            return ast.Call(func=self._rt("flat"), args=[self.visit(outer)], keywords=[])
        self.generic_visit(node)
        if len(node.generators) != 1 or node.generators[0].is_async:
            return node
        g = node.generators[0]
        try:
            f = self._lam(g.target, node.elt)
            args = [f, g.iter]
            if g.ifs:
                cond = g.ifs[0] if len(g.ifs) == 1 else ast.BoolOp(op=ast.And(), values=g.ifs)
                args.append(self._lam(g.target, cond))
            else:
                args.append(ast.Constant(value=None))
        except NotImplementedError:
            return node
        self.counts["T2"] += 1
        return ast.Call(func=self._rt("comp"), args=args, keywords=[ast.keyword(arg="kind", value=ast.Constant(value=kind))])

    def visit_ListComp(self, node):
        return self._comp(node, "list")

    def visit_GeneratorExp(self, node):
        return self._comp(node, "gen")

    def visit_Call(self, node):
        self.generic_visit(node)
        f = node.func
        if isinstance(f, ast.Attribute) and f.attr == "join" and len(node.args) == 1 and not node.keywords:
            self.counts["T3"] += 1
            return ast.Call(func=self._rt("join"), args=[f.value, node.args[0]], keywords=[])
        if isinstance(f, ast.Attribute) and f.attr == "extend" and len(node.args) == 1 and not node.keywords:
            self.counts["T3"] += 1
            return ast.Call(func=self._rt("extend"), args=[f.value, node.args[0]], keywords=[])
        if isinstance(f, ast.Attribute) and f.attr == "from_iterable" and len(node.args) == 1 and not node.keywords and \
                ((isinstance(f.value, ast.Name) and f.value.id == "chain") or (isinstance(f.value, ast.Attribute) and f.value.attr == "chain")):
            # itertools.chain.from_iterable(X): the concatenation of the chunks of X
            self.counts["T2"] += 1
            return ast.Call(func=self._rt("flat"), args=node.args, keywords=[])
        if isinstance(f, ast.Attribute) and f.attr in STR_METHODS and not (isinstance(f.value, ast.Name) and f.value.id == "__pyvc__"):
            self.counts["T5"] = self.counts.get("T5", 0) + 1
            node.func = ast.Call(func=self._rt("meth"), args=[f.value, ast.Constant(value=f.attr)], keywords=[])
            return node
        if isinstance(f, ast.Name) and f.id in BUILTINS:
            self.counts["T4"] += 1
            return ast.Call(func=self._rt("b_" + f.id), args=node.args, keywords=node.keywords)
        if isinstance(f, ast.Name) and f.id == "permutations":
            self.counts["T4"] += 1
            return ast.Call(func=self._rt("b_permutations"), args=node.args, keywords=node.keywords)
        if isinstance(f, ast.Attribute) and isinstance(f.value, ast.Name):
            if f.value.id == "re" and f.attr in ("match", "search", "split", "fullmatch", "compile"):
                self.counts["T4"] += 1
                return ast.Call(func=ast.Attribute(value=self._rt("re"), attr=f.attr, ctx=ast.Load()),
                                args=node.args, keywords=node.keywords)
            if f.value.id == "copy" and f.attr == "deepcopy":
                self.counts["T4"] += 1
                return ast.Call(func=self._rt("deepcopy"), args=node.args, keywords=node.keywords)
        return node

    # ---- `re` / `regex` in every import form are the shims of vf.rt (guarded: nothing native ever sees text with symbolic parts)
    _SHIMMED = ("re", "regex")

    def visit_Import(self, node):
        extra = []
        for al in node.names:
            if al.name in self._SHIMMED:
                tgt = al.asname or al.name
                extra.append(ast.copy_location(ast.Assign(targets=[ast.Name(id=tgt, ctx=ast.Store())], value=self._rt(al.name)), node))
        return [node] + extra if extra else node

    def visit_ImportFrom(self, node):
        if node.module in self._SHIMMED and node.level == 0:
            extra = []
            for al in node.names:
                if al.name == "*":
                    continue
                tgt = al.asname or al.name
                extra.append(ast.copy_location(ast.Assign(targets=[ast.Name(id=tgt, ctx=ast.Store())],
                                                          value=ast.Attribute(value=self._rt(node.module), attr=al.name, ctx=ast.Load())), node))
            return [node] + extra if extra else node
        return node

    def visit_Compare(self, node):
        self.generic_visit(node)
        if len(node.ops) == 1 and isinstance(node.ops[0], (ast.In, ast.NotIn)):
            # T5: `a in b` -> __pyvc__.contains(b, a)  (evaluation order a, b is kept by passing them through a tuple)
            self.counts["T5"] = self.counts.get("T5", 0) + 1
            call = ast.Call(func=self._rt("contains_ab"), args=[node.left, node.comparators[0]], keywords=[])
            return ast.UnaryOp(op=ast.Not(), operand=call) if isinstance(node.ops[0], ast.NotIn) else call
        if len(node.ops) == 1 and isinstance(node.ops[0], (ast.Is, ast.IsNot)) and isinstance(node.comparators[0], ast.Constant) \
                and node.comparators[0].value in (True, False) and isinstance(node.comparators[0].value, bool):
            # T5: `x is True` / `x is not False`: a symbolic truth value stands for a real bool
            self.counts["T5"] = self.counts.get("T5", 0) + 1
            call = ast.Call(func=self._rt("is_bool"), args=[node.left, node.comparators[0]], keywords=[])
            return ast.UnaryOp(op=ast.Not(), operand=call) if isinstance(node.ops[0], ast.IsNot) else call
        return node

    def _general_loop(self, node):
        """T1 (general form): a loop whose body has no break/continue/return/yield and assigns only
        loop-local names becomes  `def __pyvc_body_k(x): BODY` + `__pyvc__.for_each(E, __pyvc_body_k, id)`.
        On a concrete iterable for_each is `for x in E: body(x)`."""
        if node.orelse:
            return node
        fn = self.func_nodes[-1] if self.func_nodes else None
        if fn is None:
            return node
        for n in ast.walk(ast.Module(body=node.body, type_ignores=[])):
            if isinstance(n, (ast.Break, ast.Return, ast.Yield, ast.YieldFrom, ast.Await, ast.Global, ast.Nonlocal)):
                return node
        # `continue` of THIS loop ends the body for the current element: it becomes `return` of the body function
        # (a continue inside a nested loop belongs to that loop and is left alone)
        class _Cont(ast.NodeTransformer):
            def visit_For(self, n):
                return n

            visit_While = visit_AsyncFor = visit_FunctionDef = visit_AsyncFunctionDef = visit_Lambda = visit_ClassDef = visit_For

            def visit_Continue(self, n):
                return ast.copy_location(ast.Return(value=None), n)
        assigned = set()
        for n in ast.walk(ast.Module(body=node.body, type_ignores=[])):
            if isinstance(n, ast.Name) and isinstance(n.ctx, (ast.Store, ast.Del)):
                assigned.add(n.id)
        tnames = set(n.id for n in ast.walk(node.target) if isinstance(n, ast.Name))
        # names assigned in the body (or the loop variable) must not be used elsewhere in the function -- except (a) inside ANOTHER
        # loop that binds the same name itself before reading it (its target, or leading plain assignments of its body), and
        # (b) accumulators: plain local names that the body only updates with an augmented assignment (`n += 1`) and that are
        # bound outside the loop; they become `nonlocal` in the body function and are havoc'd around a symbolic iteration
        outside = set()
        outside_store = set()
        inloop = set(id(n) for n in ast.walk(node))

        def rebinds(loop):
            names = set(n.id for n in ast.walk(loop.target) if isinstance(n, ast.Name))
            for st in loop.body:
                if isinstance(st, ast.Assign) and len(st.targets) == 1 and isinstance(st.targets[0], ast.Name) \
                        and not any(isinstance(x, ast.Name) and x.id == st.targets[0].id for x in ast.walk(st.value)):
                    names.add(st.targets[0].id)
                else:
                    break
            return names

        def collect(n, bound):
            if id(n) in inloop:
                return
            if isinstance(n, ast.Lambda):
                b2 = bound | set(a.arg for a in n.args.args)
                collect(n.body, b2)
                return
            if isinstance(n, (ast.FunctionDef, ast.AsyncFunctionDef)) and n is not fn:
                # a nested function (e.g. the body function of an already rewritten loop): its parameters are its own names
                b2 = bound | set(a.arg for a in n.args.posonlyargs + n.args.args + n.args.kwonlyargs)
                for st in n.body:
                    collect(st, b2)
                return
            if isinstance(n, (ast.ListComp, ast.SetComp, ast.DictComp, ast.GeneratorExp)):
                # comprehension targets live in their own scope
                b2 = bound | set(x.id for g in n.generators for x in ast.walk(g.target) if isinstance(x, ast.Name))
                for ch in ast.iter_child_nodes(n):
                    collect(ch, b2)
                return
            if isinstance(n, ast.For) and not any(id(x) in inloop for x in ast.walk(n) if isinstance(x, ast.stmt)):
                collect(n.iter, bound)
                b2 = bound | rebinds(n)
                for st in n.body:
                    collect(st, b2)
                for st in n.orelse:
                    collect(st, bound)
                return
            if isinstance(n, ast.Name) and n.id not in bound:
                outside.add(n.id)
                if isinstance(n.ctx, ast.Store):
                    outside_store.add(n.id)
            for ch in ast.iter_child_nodes(n):
                collect(ch, bound)
        collect(fn, frozenset())
        clash = (assigned | tnames) & outside
        accs = []
        if clash:
            aug_only = set()
            plain = set()
            for n in ast.walk(ast.Module(body=node.body, type_ignores=[])):
                if isinstance(n, ast.AugAssign) and isinstance(n.target, ast.Name):
                    aug_only.add(n.target.id)
                elif isinstance(n, ast.Name) and isinstance(n.ctx, (ast.Store, ast.Del)):
                    plain.add(n.id)
            aug_names = set(n.target.id for n in ast.walk(ast.Module(body=node.body, type_ignores=[]))
                            if isinstance(n, ast.AugAssign) and isinstance(n.target, ast.Name))
            stores_not_aug = set()
            for n in ast.walk(ast.Module(body=node.body, type_ignores=[])):
                if isinstance(n, (ast.Assign, ast.AnnAssign, ast.For, ast.With, ast.NamedExpr, ast.Delete)):
                    tg = n.targets if isinstance(n, (ast.Assign, ast.Delete)) else [getattr(n, "target", None)] if not isinstance(n, ast.With) else \
                        [it.optional_vars for it in n.items if it.optional_vars is not None]
                    for t_ in tg:
                        if t_ is not None:
                            stores_not_aug |= set(x.id for x in ast.walk(t_) if isinstance(x, ast.Name))
            params = set(a.arg for a in fn.args.args + fn.args.kwonlyargs + fn.args.posonlyargs)
            ok = all(nm in aug_names and nm not in stores_not_aug and nm not in tnames and (nm in outside_store or nm in params) for nm in clash) \
                and not any(isinstance(x, (ast.Global, ast.Nonlocal)) for x in ast.walk(fn))
            if not ok:
                return node
            accs = sorted(clash)
        self.loop_no += 1
        name = f"__pyvc_body_{self.loop_no}"
        body = [self._fix_super(_Cont().visit(b)) for b in node.body]      # only now: the loop IS being rewritten
        if isinstance(node.target, ast.Name):
            argname = node.target.id
        else:
            # tuple target: def body(__pyvc_t): (a, b) = __pyvc_t; BODY
            argname = "__pyvc_t"
            body = [ast.Assign(targets=[node.target], value=ast.Name(id=argname, ctx=ast.Load()))] + body
        args = [ast.arg(arg=argname)]
        defaults = []
        if accs:
            # def body(x, __pyvc_h=False): nonlocal a; if __pyvc_h: a = havoc("a", a); BODY
            hv = [ast.Assign(targets=[ast.Name(id=a_, ctx=ast.Store())],
                             value=ast.Call(func=self._rt("havoc"), args=[ast.Constant(value=f"{fn.name}:{a_}@k"), ast.Name(id=a_, ctx=ast.Load())], keywords=[]))
                  for a_ in accs]
            body = [ast.Nonlocal(names=list(accs)), ast.If(test=ast.Name(id="__pyvc_h", ctx=ast.Load()), body=hv, orelse=[])] + body
            args.append(ast.arg(arg="__pyvc_h"))
            defaults = [ast.Constant(value=False)]
        fdef = ast.FunctionDef(name=name, args=ast.arguments(posonlyargs=[], args=args, kwonlyargs=[],
                                                             kw_defaults=[], defaults=defaults), body=body, decorator_list=[], returns=None,
                               type_params=[])
        # local containers (plain names bound outside the loop) that the body mutates in place: their contents before a generic
        # iteration are unknown -- a loop over a symbolic sequence that does this is outside the rule (Unsupported at run time)
        MUTM = {"append", "extend", "add", "update", "insert", "pop", "remove", "discard", "clear", "setdefault", "popitem", "sort", "reverse",
                "appendleft", "extendleft"}
        mut = set()
        for n in ast.walk(ast.Module(body=node.body, type_ignores=[])):
            if isinstance(n, ast.Call) and isinstance(n.func, ast.Attribute) and n.func.attr in MUTM and isinstance(n.func.value, ast.Name):
                mut.add(n.func.value.id)
            if isinstance(n, (ast.Assign, ast.AugAssign, ast.Delete)):
                for tg in (n.targets if isinstance(n, (ast.Assign, ast.Delete)) else [n.target]):
                    if isinstance(tg, ast.Subscript) and isinstance(tg.value, ast.Name):
                        mut.add(tg.value.id)
        mut = sorted(m_ for m_ in mut if m_ not in assigned and m_ not in tnames and m_ != self.first_arg[-1] and m_ != "__pyvc__")
        kws = [ast.keyword(arg="accs", value=ast.Constant(value=True))] if accs else []
        if mut:
            kws.append(ast.keyword(arg="mut", value=ast.Constant(value=", ".join(mut))))
        fe = ast.Call(func=self._rt("for_each"),
                      args=[node.iter, ast.Name(id=name, ctx=ast.Load()),
                            ast.Constant(value=f"{self.modname}:{fn.name}:{self.loop_no}")],
                      keywords=kws)
        self.counts["T1"] += 1
        if not accs:
            return [ast.copy_location(fdef, node), ast.copy_location(ast.Expr(value=fe), node)]
        # if the loop ran over a symbolic sequence: the accumulators hold unknown values afterwards
        hv2 = [ast.Assign(targets=[ast.Name(id=a_, ctx=ast.Store())],
                          value=ast.Call(func=self._rt("havoc"), args=[ast.Constant(value=f"{fn.name}:{a_}@exit"), ast.Name(id=a_, ctx=ast.Load())], keywords=[]))
               for a_ in accs]
        after = ast.If(test=fe, body=hv2, orelse=[])
        return [ast.copy_location(fdef, node), ast.copy_location(after, node)]

    _LOG_LEVELS_INERT = ("debug",)

    def _inert_stmt_expr(self, st):
        """an expression that performs a statement which is no part of the loop's functional result: `assert C, M` or a
        debug-level logging call; None when st is not of that kind"""
        if isinstance(st, ast.Assert):
            msg = st.msg if st.msg is not None else ast.Constant(value=None)
            noargs = ast.arguments(posonlyargs=[], args=[], kwonlyargs=[], kw_defaults=[], defaults=[])
            return ast.Call(func=self._rt("assert_"), args=[st.test, ast.Lambda(args=noargs, body=msg)], keywords=[])
        if isinstance(st, ast.Expr) and isinstance(st.value, ast.Call) and isinstance(st.value.func, ast.Attribute) \
                and st.value.func.attr in self._LOG_LEVELS_INERT and isinstance(st.value.func.value, ast.Name) \
                and st.value.func.value.id in ("logger", "log", "LOGGER", "_logger"):
            return st.value
        return None

    @staticmethod
    def _then(effects, value):
        """(e1, e2, ..., value)[-1]: the effects in order, then the value"""
        if not effects:
            return value
        return ast.Subscript(value=ast.Tuple(elts=list(effects) + [value], ctx=ast.Load()), slice=ast.Constant(value=-1), ctx=ast.Load())

    def _search_loop(self, node):
        """T1 (search form):  for x in E: if C: return V      (C, V free of calls, no else)
           ->  __pyvc_r = __pyvc__.search(E, lambda x: C, lambda x: V)
               if __pyvc_r is not __pyvc__.NOTFOUND: return __pyvc_r[0]
        The loop returns V for the FIRST element satisfying C and falls through when none does."""
        if node.orelse or len(node.body) != 1 or not isinstance(node.body[0], ast.If):
            return node
        iff = node.body[0]
        if iff.orelse or not iff.body or not isinstance(iff.body[-1], ast.Return) or iff.body[-1].value is None:
            return node
        # statements before the return: asserts / debug logging only (performed for the element that is returned)
        effects = [self._inert_stmt_expr(st) for st in iff.body[:-1]]
        if any(e is None for e in effects):
            return node
        for part in (iff.test, iff.body[-1].value):
            for n in ast.walk(part):
                if isinstance(n, (ast.Call, ast.Await, ast.Yield, ast.YieldFrom, ast.NamedExpr, ast.Lambda)):
                    return node
        try:
            c = self._lam(node.target, iff.test)
            v = self._lam(node.target, self._then(effects, iff.body[-1].value))
        except NotImplementedError:
            return node
        self.counts["T1"] += 1
        self.loop_no += 1
        rname = f"__pyvc_r{self.loop_no}"
        assign = ast.Assign(targets=[ast.Name(id=rname, ctx=ast.Store())],
                            value=ast.Call(func=self._rt("search"), args=[node.iter, c, v], keywords=[]))
        test = ast.Compare(left=ast.Name(id=rname, ctx=ast.Load()), ops=[ast.IsNot()], comparators=[self._rt("NOTFOUND")])
        ret = ast.Return(value=ast.Subscript(value=ast.Name(id=rname, ctx=ast.Load()), slice=ast.Constant(value=0), ctx=ast.Load()))
        return [ast.copy_location(assign, node), ast.copy_location(ast.If(test=test, body=[ret], orelse=[]), node)]

    def visit_For(self, node):
        self.generic_visit(node)
        if node.orelse or not node.body:
            return node
        r = self._search_loop(node)
        if r is not node:
            return r
        r = self._append_loop(node)
        if r is not node:
            return r
        return self._general_loop(node)

    def _append_loop(self, node):
        # body = pre* ; L.append/extend(V) ; post*      pre: plain single-name assignments (loop-local temporaries), guards
        # `if C: raise E`, asserts, debug logging;  post: asserts / debug logging that do not mention L
        idx = [i for i, st_ in enumerate(node.body) if isinstance(st_, ast.Expr) and isinstance(st_.value, ast.Call)
               and isinstance(st_.value.func, ast.Attribute)
               and (st_.value.func.attr in ("append", "extend")
                    or (isinstance(st_.value.func.value, ast.Name) and st_.value.func.value.id == "__pyvc__" and st_.value.func.attr == "extend"))]
        if len(idx) != 1:
            return node
        pre, st, post = node.body[:idx[0]], node.body[idx[0]], node.body[idx[0] + 1:]
        for a in pre:
            if isinstance(a, ast.Assign) and len(a.targets) == 1 and isinstance(a.targets[0], ast.Name):
                continue
            if isinstance(a, ast.If) and not a.orelse and len(a.body) == 1 and isinstance(a.body[0], ast.Raise) and a.body[0].exc is not None:
                continue
            if self._inert_stmt_expr(a) is not None:
                continue
            return node
        post_effects = [self._inert_stmt_expr(a) for a in post]
        if any(e is None for e in post_effects):
            return node
        c = st.value
        if (isinstance(c.func, ast.Attribute) and isinstance(c.func.value, ast.Name) and c.func.value.id == "__pyvc__"
                and c.func.attr == "extend" and len(c.args) == 2):
            # already rewritten L.extend(V) -> __pyvc__.extend(L, V): undo for the loop form
            c = ast.Call(func=ast.Attribute(value=c.args[0], attr="extend", ctx=ast.Load()), args=[c.args[1]], keywords=[])
            self.counts["T3"] -= 1
        if not (isinstance(c.func, ast.Attribute) and c.func.attr in ("append", "extend") and len(c.args) == 1 and not c.keywords):
            return node
        tgt = c.func.value
        if not isinstance(tgt, (ast.Name, ast.Attribute)):
            return node
        # the appended value (and what is logged after the append) must not mention the target list itself
        for part in [c.args[0]] + post_effects:
            for n in ast.walk(part):
                if isinstance(n, ast.Name) and isinstance(tgt, ast.Name) and n.id == tgt.id:
                    return node
                if isinstance(tgt, ast.Attribute) and isinstance(n, ast.Attribute) and n.attr == tgt.attr:
                    return node
        # temporaries must be loop-local: not used after the loop
        tmp_names = set(a.targets[0].id for a in pre if isinstance(a, ast.Assign))
        fn = self.func_nodes[-1] if self.func_nodes else None
        if tmp_names and fn is not None:
            inloop = set(id(n) for n in ast.walk(node) if isinstance(n, (ast.stmt, ast.Name)))
            for n in ast.walk(fn):
                if isinstance(n, ast.Name) and n.id in tmp_names and id(n) not in inloop and isinstance(n.ctx, ast.Load):
                    # read outside the loop: only fine when every such read is in another loop that rebinds it first (checked
                    # by the general form); keep the loop as it is and let the general form decide
                    return node
        value = self._then(post_effects, c.args[0]) if post_effects else c.args[0]
        if post_effects:
            # value first, then the effects, then the value is handed to for_app: (lambda v: (e1, ..., v)[-1])(V)
            value = ast.Call(func=ast.Lambda(args=ast.arguments(posonlyargs=[], args=[ast.arg(arg="__pyvc_v")], kwonlyargs=[], kw_defaults=[], defaults=[]),
                                             body=self._then(post_effects, ast.Name(id="__pyvc_v", ctx=ast.Load()))), args=[c.args[0]], keywords=[])
        try:
            for a in reversed(pre):
                if isinstance(a, ast.Assign):      # (lambda tmp: value)(expr)
                    inner = self._lam(a.targets[0], value)
                    value = ast.Call(func=inner, args=[a.value], keywords=[])
                elif isinstance(a, ast.If):         # raise_(E) if C else value
                    r = a.body[0]
                    rargs = [r.exc] + ([r.cause] if r.cause is not None else [])
                    value = ast.IfExp(test=a.test, body=ast.Call(func=self._rt("raise_"), args=rargs, keywords=[]), orelse=value)
                else:
                    value = self._then([self._inert_stmt_expr(a)], value)
            f = self._lam(node.target, value)
        except NotImplementedError:
            return node
        self.counts["T1"] += 1
        store = ast.Name(id=tgt.id, ctx=ast.Store()) if isinstance(tgt, ast.Name) else \
            ast.Attribute(value=tgt.value, attr=tgt.attr, ctx=ast.Store())
        call = ast.Call(func=self._rt("for_app"), args=[tgt, f, node.iter],
                        keywords=[ast.keyword(arg="method", value=ast.Constant(value=c.func.attr))])
        return ast.copy_location(ast.Assign(targets=[store], value=call), node)


RENAMES: Dict[str, str] = {}          # identifier normalisation new -> old (vf.alpha), set by install()
RENAME_NOTES: List[str] = []


def parse_file(path: str) -> ast.AST:
    """AST of a source file of the tree under check after identifier normalisation (for the syntactic scans)"""
    if not RENAMES and not RENAME_NOTES:
        from . import alpha
        ren, notes = alpha.renames_for(os.path.join(repo_root(), "src"))
        RENAMES.update(ren)
        RENAME_NOTES[:] = notes
    tree = ast.parse(open(path, encoding="utf-8").read(), path)
    from . import alpha
    return alpha.normalise(tree, path, os.path.join(repo_root(), "src"), RENAMES)


def transform_source(src: str, modname: str, filename: str):
    tree = ast.parse(src, filename)
    from . import alpha
    tree = alpha.normalise(tree, filename, os.path.join(repo_root(), "src"), RENAMES)
    tree = T(modname).visit(tree)
    imp = ast.Import(names=[ast.alias(name="vf.rt", asname="__pyvc__")])
    # after docstring / __future__ imports
    i = 0
    body = tree.body
    if body and isinstance(body[0], ast.Expr) and isinstance(getattr(body[0], "value", None), ast.Constant) \
            and isinstance(body[0].value.value, str):
        i = 1
    while i < len(body) and isinstance(body[i], ast.ImportFrom) and body[i].module == "__future__":
        i += 1
    body.insert(i, imp)
    ast.fix_missing_locations(tree)
    return tree


class InstrumentError(BaseException):
    """the instrumenter itself failed on a module (not an outcome of the code under contract): an internal error of the checker"""


class Loader(importlib.machinery.SourceFileLoader):
    def source_to_code(self, data, path, *, _optimize=-1):
        src = data.decode("utf-8") if isinstance(data, bytes) else data
        ast.parse(src, path)            # a tree that does not parse raises its own SyntaxError
        try:
            tree = transform_source(src, self.name, path)
            return compile(tree, path, "exec", dont_inherit=True, optimize=_optimize)
        except Exception as e:  # noqa
            raise InstrumentError(f"instrumenting {path}: {type(e).__name__}: {e}")

    def get_code(self, fullname):
        # never use / write .pyc files: the text must be re-read from the tree on every run
        path = self.get_filename(fullname)
        return self.source_to_code(self.get_data(path), path)


class Finder(importlib.abc.MetaPathFinder):
    def __init__(self, src_root: str):
        self.src_root = src_root

    def find_spec(self, fullname, path, target=None):
        if fullname != "jasm" and not fullname.startswith("jasm."):
            return None
        parts = fullname.split(".")
        base = os.path.join(self.src_root, *parts)
        if os.path.isdir(base):
            init = os.path.join(base, "__init__.py")
            if os.path.exists(init):
                return importlib.util.spec_from_file_location(
                    fullname, init, loader=Loader(fullname, init), submodule_search_locations=[base])
            return None
        f = base + ".py"
        if os.path.exists(f):
            return importlib.util.spec_from_file_location(fullname, f, loader=Loader(fullname, f))
        return None


def repo_root() -> str:
    return os.environ.get("JASM_REPO", "/repo")


def install(src_root: str = None):
    """make `import jasm...` load the instrumented text of the current tree"""
    src_root = src_root or os.path.join(repo_root(), "src")
    for k in [k for k in sys.modules if k == "jasm" or k.startswith("jasm.")]:
        del sys.modules[k]
    sys.meta_path[:] = [f for f in sys.meta_path if not isinstance(f, Finder)]
    sys.meta_path.insert(0, Finder(src_root))
    from . import alpha
    ren, notes = alpha.renames_for(src_root)
    RENAMES.clear()
    RENAMES.update(ren)
    RENAME_NOTES[:] = notes
    sys.dont_write_bytecode = True
    return src_root
