"""./check <id> [--tier quick|thorough] [--replay <path>]

exit 0  every obligation of the property proved (or refuted exactly as listed in known_findings.json)
exit 1  an obligation is refuted and not listed:  VIOLATION property=<id> replay=<path>
exit 2  nothing refuted but something undecided:  UNDECIDED property=<id> obligation=<name> reason=<...>
exit 3  internal error of the verifier
"""
from __future__ import annotations

import argparse
import fnmatch
import hashlib
import importlib
import json
import multiprocessing as mp
import os
import sys
import time
import traceback
from typing import Any, Dict, List, Optional, Tuple

ROOT = os.path.dirname(os.path.dirname(os.path.abspath(__file__)))
sys.path.insert(0, ROOT)

from vf import core  # noqa: E402
from vf.core import PROVED, REFUTED, UNDECIDED, Ob  # noqa: E402

CONTRACT_MODULES = ["contracts.nodes", "contracts.times", "contracts.captures", "contracts.deref", "contracts.typing", "contracts.toplevel", "contracts.anymacro",
                    "contracts.driver", "contracts.validaddr", "contracts.faults", "contracts.config", "contracts.parser", "contracts.macros", "contracts.cli_main",
                    "contracts.canaries"]

TRUSTED_BASE = [
    "pyvc (this repository): path exploration by decision-prefix re-execution of the real function objects under CPython 3.12; proxy models SymInt/Name/SymSeq/SymStr; T1-T5 AST instrumentation (identity on concrete data, checked by running the repository's tests on the instrumented modules in the thorough tier)",
    "rx/rxeq (this repository): regex parser for the dialect JASM emits, Thompson NFA, on-the-fly product determinisation; complete for the regular-language VCs",
    "z3 5.1 (integer / boolean VCs and path feasibility)",
    "T-regex: `regex.search/finditer` return the leftmost match of the standard match relation, finditer resumes at the end of the previous match",
    "T-loop: X{lo,hi} == X{lo,} when '|' not in X, hi >= 256 and every record has <= 256 characters (A-len) -- mechanised for the regular core (Lean 4 + Mathlib: lean/TLoop.lean, theorems tloop / agree_add / agree_mul / agree_kstar: agreement on factor-closed word sets is a congruence for union, concatenation, star); its use below look-aheads and back-references remains a paper argument",
    "T-sub / T-cat: obligations proved over the extended alphabet hold for every substitution of opaque letters by names without separators and by children satisfying their level contract; the concatenation of closed children is closed -- the algebraic core is mechanised (lean/TSub.lean: regular substitution is monotone, preserves equalities and commutes with union and concatenation); that the extended stream grammar is the pre-image of the stream grammar under the substitution remains a paper argument (DESIGN appendix A)",
    "stream grammar K (DESIGN 3.1) is what the parser+encoder produce: established by C08-C10's obligations relative to the objdump line grammar G (A-objdump)",
]


def load_contracts() -> None:
    for m in CONTRACT_MODULES:
        try:
            importlib.import_module(m)
        except ModuleNotFoundError as e:
            if e.name != m:
                raise


def instrument_error():
    from vf import instrument
    return instrument.InstrumentError


def _run_scenario(idx: int) -> Tuple[int, List[Dict[str, Any]], Optional[str], float, Dict[str, Any]]:
    t = time.time()
    sc = core.REGISTRY[idx]
    try:
        try:
            obs = sc.run()
        finally:
            from vf import jasmrt
            jasmrt.restore_all()
        from vf import instrument, rt
        info = {"rewrites": {k: v for k, v in instrument.REWRITES.items() if any(v.values())}, "rt": dict(rt.COUNTS)}
        if not obs:
            # vacuity guard per scenario: a contract that generates no obligation on this tree decided nothing
            obs = [Ob(f"{sc.ident}:RUN", sc.func, "RUN", "the contract scenario generates at least one obligation on this tree", UNDECIDED,
                      list(sc.props), "pyvc", time.time() - t, "", "unsupported: the scenario produced no obligation (every path skipped)")]
        return idx, [o.to_json() for o in obs], None, time.time() - t, info
    except core.CheckerError as e:
        if "payload variants diverge" in str(e):
            # two executions of the same scenario differ: either a proxy payload leaked (engine) or the code under
            # contract keeps state between calls; neither lets the obligations be discharged
            ob = Ob(f"{sc.ident}:RUN", sc.func, "RUN", "two executions of the scenario on the same inputs agree", UNDECIDED, list(sc.props),
                    "pyvc", time.time() - t, "", "executions diverge (hidden state in the code under contract, or a leaked proxy payload): " + str(e)[:600])
            return idx, [ob.to_json()], None, time.time() - t, {}
        return idx, [], "CheckerError: " + str(e), time.time() - t, {}
    except instrument_error() as e:
        return idx, [], "CheckerError: " + str(e), time.time() - t, {}
    except SystemExit as e:
        # the code under contract asked the interpreter to exit (sys.exit / argparse error at import or call time): nothing is
        # known about the scenario's obligations -- undecided, and the concrete runs (CLI smoke / sweeps) say what a user sees
        ob = Ob(f"{sc.ident}:RUN", sc.func, "RUN", "the contract scenario runs to completion on this tree", UNDECIDED, list(sc.props),
                "pyvc", time.time() - t, "", f"scenario aborted: the code under contract raised SystemExit({e.code!r})")
        return idx, [ob.to_json()], None, time.time() - t, {}
    except Exception as e:
        # the code under contract no longer fits the scenario (changed signature, unsupported construct, ...):
        # the scenario's obligations are UNDECIDED, never silently passed and never a violation by themselves
        tb = traceback.format_exc(limit=6)
        ob = Ob(f"{sc.ident}:RUN", sc.func, "RUN", "the contract scenario runs to completion on this tree", UNDECIDED, list(sc.props),
                "pyvc", time.time() - t, "", f"scenario aborted: {type(e).__name__}: {e}\n{tb[-600:]}")
        return idx, [ob.to_json()], None, time.time() - t, {}


def _alpha_notes() -> Dict[str, Any]:
    """renamed functions / methods / classes / fields are read under the name the sidecar contracts use (vf.alpha)"""
    from vf import alpha, instrument
    ren, notes = alpha.renames_for(os.path.join(instrument.repo_root(), "src"))
    src = os.path.join(instrument.repo_root(), "src")
    from vf import jasmrt
    return {"applied": dict(ren), "moved": list(jasmrt.MOVED_NOTES), "aliases": [list(a) for a in alpha.ALIASES.get(src, [])], "parameters": alpha.PARAMS.get(src, {}), "notes": list(notes),
            "what": "contracts are keyed by name; an identifier that was consistently renamed in the tree (old name gone, new name fresh) "
                    "is read under its old name in every module before the obligations are generated -- a bijective renaming, nothing else is changed"}


# property -> the properties that PRESUPPOSE it (every obligation serving the key also serves them):
#  C10 (separator-free fields)            <- C01: positional matching of the k-th name against the k-th operand
#  C07 (every node is unit-aligned)       <- C01..C06: an operator / $not / capture assumes that its neighbours end on a unit boundary
#  C14 (the configuration is this rule's) <- C01..C07, C11, C12: flags, range and sections in effect are those of the rule being run
#  C14 also                                <- C08, C09, C10, C16: which instructions enter the stream, and with which operands, depends on
#                                            the observers installed from the configuration in effect (valid_addr_range)
#  C08 (the stream is the listing's lines) <- C01, C07, C11: "consecutive instructions of the listing / of the input", "leftmost in the listing"
PRESUPPOSES = {"C10": ["C01"], "C07": ["C01", "C02", "C03", "C04", "C05", "C06"],
               "C14": ["C01", "C02", "C03", "C04", "C05", "C06", "C07", "C11", "C12", "C08", "C09", "C10", "C16"],
               "C08": ["C01", "C07", "C11"]}
DRIVER_ALSO = {"C01", "C02", "C03", "C04", "C05", "C06", "C07", "C20"}
MEM_LIMIT = int(os.environ.get("VERIF_MEM_GB", "6")) << 30
SCEN_TIMEOUT = int(os.environ.get("VERIF_SCENARIO_TIMEOUT", "300"))


def _worker_init() -> None:
    """bound the address space of a worker: an automaton / solver blow-up then fails inside the worker (MemoryError -> the
    scenario is UNDECIDED) instead of driving the machine into the OOM killer"""
    try:
        import resource
        resource.setrlimit(resource.RLIMIT_AS, (MEM_LIMIT, MEM_LIMIT))
    except Exception:
        pass


def _died(idx: int, why: str):
    sc = core.REGISTRY[idx]
    ob = Ob(f"{sc.ident}:RUN", sc.func, "RUN", "the contract scenario runs to completion on this tree", UNDECIDED, list(sc.props),
            "pyvc", 0.0, "", f"scenario aborted: {why}")
    return idx, [ob.to_json()], None, 0.0, {}


def _run_all(idxs: List[int], jobs: int):
    """every scenario in a worker process; a worker that dies (killed, out of memory, crashed solver) or exceeds the time limit
    never hangs the check: its scenario -- identified by re-running the casualties one per process -- is UNDECIDED"""
    from concurrent.futures import ProcessPoolExecutor, wait, FIRST_COMPLETED
    from concurrent.futures.process import BrokenProcessPool
    ctx = mp.get_context("fork")
    results, pending_retry = [], []
    try:
        with ProcessPoolExecutor(max_workers=jobs, mp_context=ctx, initializer=_worker_init) as ex:
            futs = {ex.submit(_run_scenario, i): i for i in idxs}
            for f, i in futs.items():
                try:
                    results.append(f.result(timeout=SCEN_TIMEOUT * 2))
                except BrokenProcessPool:
                    pending_retry.append(i)
                except Exception as e:       # noqa  (timeout, unpicklable result, ...)
                    pending_retry.append(i)
                    if type(e).__name__ == "TimeoutError":
                        for pr in list(getattr(ex, "_processes", {}).values()):
                            try:
                                pr.kill()
                            except Exception:
                                pass
    except BrokenProcessPool:
        done = {r[0] for r in results}
        pending_retry = [i for i in idxs if i not in done]
    done = {r[0] for r in results}
    for i in [i for i in idxs if i not in done]:
        # one process per casualty: the scenario that kills its worker only takes itself down
        try:
            with ProcessPoolExecutor(max_workers=1, mp_context=ctx, initializer=_worker_init) as ex1:
                try:
                    results.append(ex1.submit(_run_scenario, i).result(timeout=SCEN_TIMEOUT))
                except Exception:
                    for pr in list(getattr(ex1, "_processes", {}).values()):
                        try:
                            pr.kill()
                        except Exception:
                            pass
                    raise
        except Exception as e:           # noqa
            results.append(_died(i, f"the worker process died or timed out ({type(e).__name__}): out of memory / time in the automaton or solver back end"))
    return results


def _lean_record(tier: str, prop: str) -> Dict[str, Any]:
    """lean/last_check.json is cited only while the hashes of the Lean files still match; the thorough tier of C10 re-checks"""
    import hashlib
    import subprocess
    rec_path = os.path.join(ROOT, "lean", "last_check.json")
    out: Dict[str, Any] = {"what": "paper lemmas that are machine-checked: unique decodability of the stream encoding (C10), T-loop (all regex VCs)",
                           "checker": "tools/check_lean.sh (Lean 4.33 + Mathlib under /opt/veriftools)"}
    if tier == "thorough" and prop == "C10" and os.path.isdir("/opt/veriftools/mathlib4"):
        try:
            r = subprocess.run([os.path.join(ROOT, "tools", "check_lean.sh")], capture_output=True, text=True, timeout=1200)
            out["rechecked_now"] = (r.returncode == 0)
        except Exception as e:      # noqa
            out["rechecked_now"] = f"not run: {e}"
    try:
        rec = json.load(open(rec_path))
        for fn in ("Decodable.lean", "TLoop.lean", "TSub.lean"):
            h = hashlib.sha256(open(os.path.join(ROOT, "lean", fn), "rb").read()).hexdigest()[:16]
            rec[fn]["current"] = (rec[fn]["sha256_16"] == h)
        out["record"] = rec
    except Exception as e:          # noqa
        out["record"] = f"unavailable: {e}"
    return out


def load_findings() -> Dict[str, Any]:
    p = os.path.join(ROOT, "known_findings.json")
    if os.path.exists(p):
        return json.load(open(p))
    return {"findings": [], "fixed": []}


def match_finding(ob: Dict[str, Any], prop: str, findings: List[Dict[str, Any]]) -> Optional[Dict[str, Any]]:
    for f in findings:
        if prop not in f.get("properties", [f.get("property")]):
            continue
        if not fnmatch.fnmatchcase(ob["name"], f["obligation"]):
            continue
        if f.get("witness") is not None and f["witness"] != ob["witness"]:
            continue
        return f
    return None


def main(argv=None) -> int:
    ap = argparse.ArgumentParser()
    ap.add_argument("prop")
    ap.add_argument("--tier", default=os.environ.get("VERIF_TIER", "quick"), choices=["quick", "thorough"])
    ap.add_argument("--replay", default=None)
    ap.add_argument("--jobs", type=int, default=min(16, os.cpu_count() or 4))
    ap.add_argument("--list", action="store_true")
    args = ap.parse_args(argv)
    prop = args.prop
    seed = int(os.environ.get("VERIF_SEED", "0") or 0)
    os.environ["VERIF_TIER"] = args.tier
    t0 = time.time()

    if args.replay:
        from vf import replay
        return replay.rerun(prop, args.replay)

    try:
        load_contracts()
    except Exception:
        traceback.print_exc()
        print(f"INTERNAL-ERROR property={prop} loading contracts")
        return 3
    # properties that presuppose another one: C01's positional matching (k-th operand name against the k-th operand) is only
    # meaningful on a stream whose fields contain no separator -- every obligation that serves C10 therefore also serves C01
    also = [q for q, ps in PRESUPPOSES.items() if prop in ps]

    def _serves_prop(props) -> bool:
        return prop in props or any(q in props for q in also)
    # every pattern property (C01-C07) is stated about the verdict / matches of the whole operation: it presupposes that the
    # driver hands the compiled rule and the WHOLE stream to the engine once (scan semantics, C11) -- the driver scenarios
    # therefore also serve them
    drv = prop in DRIVER_ALSO

    def _scen_selected(sc_) -> bool:
        return _serves_prop(sc_.props) or "*" in sc_.props or (drv and sc_.ident.startswith("driver:") and ("C11" in sc_.props or "C12" in sc_.props))
    idxs = [i for i, s in enumerate(core.REGISTRY) if _scen_selected(s)]
    if args.list:
        for i in idxs:
            print(core.REGISTRY[i].ident, core.REGISTRY[i].func)
        return 0
    if not [i for i in idxs if "*" not in core.REGISTRY[i].props]:
        print(f"INTERNAL-ERROR property={prop}: no contract scenario generates obligations (vacuity guard)")
        return 3

    results = _run_all(idxs, max(1, args.jobs))
    results.sort(key=lambda r: r[0])

    errors = [(core.REGISTRY[i].ident, err) for (i, _o, err, _t, _inf) in results if err]
    obs: List[Dict[str, Any]] = []
    all_obs: Dict[str, Dict[str, Any]] = {}
    scen_info = []
    rewrites: Dict[str, Any] = {}
    for (i, o, err, dt, info) in results:
        sc = core.REGISTRY[i]
        # a part of a scenario that did not run to completion (RUN, not proved) leaves ALL the obligations it would have
        # generated for this property unchecked, whatever properties the RUN obligation itself was labelled with
        own = [x for x in o if _serves_prop(x["props"]) or "*" in x["props"]
               or (drv and sc.ident.startswith("driver:") and ("C11" in x["props"] or "C12" in x["props"]))
               or (x["family"] == "RUN" and x["status"] != PROVED and "*" not in sc.props)]
        for x in o:
            all_obs[x["name"]] = x
        obs.extend(own)
        scen_info.append({"scenario": sc.ident, "function": sc.func, "inlined": sc.inlined, "obligations": len(own),
                          "seconds": round(dt, 3)})
        rewrites.update(info.get("rewrites", {}))

    findings = load_findings()
    by_name = all_obs
    canaries = [o for o in obs if o["family"] == "CANARY"]
    real = [o for o in obs if o["family"] not in ("CANARY", "SELFTEST")]
    canary_bad = [o for o in canaries if o["status"] != REFUTED]
    selftests = [o for o in obs if o["family"] == "SELFTEST"]
    canary_bad += [o for o in selftests if o["status"] != PROVED]
    refuted = [o for o in real if o["status"] == REFUTED]
    undecided = [o for o in real if o["status"] == UNDECIDED]
    known, new = [], []
    for o in refuted:
        f = match_finding(o, prop, findings.get("findings", []))
        ok = f is not None
        if ok and f.get("requires_proved"):
            req = o["name"].rsplit(":", 1)[0] + ":" + f["requires_proved"]
            ok = by_name.get(req, {}).get("status") == PROVED
        (known if ok else new).append((o, f))

    # ---- thorough tier: bounded sweeps / conformance runs registered by the contract files
    extra: Dict[str, Any] = {}
    sweep_viol: List[Dict[str, Any]] = []
    try:
        from vf import sweeps
        extra, sweep_viol = sweeps.run(prop, args.tier, seed, force=bool(undecided or new))
        for he in extra.get("harness_errors", []):
            hob = Ob(f"sweep:{he.split(':')[0]}:RUN", "vf.sweeps", "RUN", "the bounded sweep's use of the public API fits this tree", UNDECIDED, [prop],
                     "harness", 0.0, "", "harness does not fit the tree: " + he).to_json()
            undecided.append(hob)
    except Exception:
        errors.append(("sweeps", traceback.format_exc(limit=6)))

    # ---- replay every new refutation on the real code
    lines: List[str] = []
    replay_paths: List[str] = []
    if new or sweep_viol:
        from vf import replay
        picked, seen_ff = [], set()
        for (o, _f) in new:                     # one replay per (function, family), at most 6
            k = (o["func"], o["family"])
            if k not in seen_ff and len(picked) < 6:
                seen_ff.add(k)
                picked.append(o)
        for o in picked:
            path, confirmed = replay.write(prop, o)
            replay_paths.append(path)
            lines.append(f"VIOLATION property={prop} replay={path}" + ("" if confirmed else " no-failing-input-found"))
        for v in sweep_viol:
            path = replay.write_concrete(prop, v)
            replay_paths.append(path)
            lines.append(f"VIOLATION property={prop} replay={path}")
    seen_known = set()
    for (o, f) in known:
        key = f.get("id", f["obligation"])
        if key in seen_known:
            continue
        seen_known.add(key)
        print(f"KNOWN-FINDING: property={prop} {f['what']}")

    # ---- evidence
    # bounded stand-ins are never counted among the discharged obligations
    bounded_obs = [o for o in real if o.get("bounded")]
    deductive = [o for o in real if not o.get("bounded")]
    nproved = len([o for o in deductive if o["status"] == PROVED])
    backends: Dict[str, Dict[str, float]] = {}
    for o in real:
        b = backends.setdefault(o["backend"] or "pyvc", {"obligations": 0, "seconds": 0.0})
        b["obligations"] += 1
        b["seconds"] = round(b["seconds"] + o["seconds"], 4)
    funcs = sorted(set(o["func"] for o in real))
    bounded = sorted(set(o["bounded"] for o in real if o.get("bounded")))
    all_proved = (nproved == len(deductive))
    level = "proof" if all_proved and real else "other"
    # the level recorded is the level CLAIMED in MANIFEST.json for this property (what the run achieved is in coverage)
    try:
        man = json.load(open(os.path.join(ROOT, "MANIFEST.json")))
        claimed = [c["level_claimed"]["category"] for c in man.get("checks", []) if c["property_id"] == prop]
        if claimed:
            level = claimed[0]
    except Exception:
        pass
    samples = []
    fam_seen = set()
    for o in real:
        k = (o["func"], o["family"])
        if k in fam_seen:
            continue
        fam_seen.add(k)
        samples.append({"obligation": o["name"], "statement": o["statement"], "status": o["status"],
                        "backend": o["backend"], "seconds": round(o["seconds"], 4)})
        if len(samples) >= 40:
            break
    for (o, f) in known[:10]:
        samples.append({"obligation": o["name"], "statement": o["statement"], "status": "refuted (known finding)",
                        "witness": o["witness"], "finding": f["what"]})
    assumptions = sorted(set(a for s in [core.REGISTRY[i] for i in idxs] for a in getattr(s, "assumptions", [])))
    coverage: Dict[str, Any] = {
        "obligations": len(deductive),
        "discharged": nproved,
        "bounded_checks": {"run": len(bounded_obs), "passed": len([o for o in bounded_obs if o["status"] == PROVED]),
                           "note": "bounded stand-ins / concrete conformance checks; reported separately, never counted as discharged"},
        "refuted_known": len(known),
        "refuted_new": len(new),
        "undecided": len(undecided),
        "checker_cmd": f"./check {prop} --tier {args.tier}",
        "trusted_base": TRUSTED_BASE,
        "functions_under_contract": funcs,
        "scenarios": scen_info,
        "backends": backends,
        "instrumentation_rewrites": rewrites,
        "vacuity": {"canaries_expected_refuted": len(canaries), "canaries_refuted": len([o for o in canaries if o["status"] == REFUTED]),
                    "engine_selftests": [{"name": o["name"], "statement": o["statement"], "status": o["status"]} for o in selftests],
                    "obligations_nonzero": len(real) > 0},
        "bounded_standins": bounded + extra.get("bounded_standins", []),
        "samples": samples,
        "replay_files": replay_paths,
        "repo_tree": os.environ.get("JASM_REPO", "/repo"),
        "identifier_normalisation": _alpha_notes(),
        "mechanised_lemmas": _lean_record(args.tier, prop),
    }
    coverage.update({k: v for k, v in extra.items() if k != "bounded_standins"})
    if True:
        why = []
        if known:
            why.append(f"{len(known)} obligations are refuted by defects recorded in known_findings.json (listed, replayed, pinned)")
        if undecided:
            why.append(f"{len(undecided)} obligations undecided")
        if coverage["bounded_standins"]:
            why.append("part of the claim rests on bounded stand-ins: " + "; ".join(coverage["bounded_standins"]))
        if new:
            why.append(f"{len(new)} NEW refuted obligations (violation reported)")
        coverage["explanation"] = ("contract-based deductive verification of the real functions: " + str(nproved) + " of " + str(len(deductive)) +
                                   " obligations discharged" + ("; " + "; ".join(why) if why else "; nothing refuted or undecided on this tree"))
    ev = {
        "property_id": prop, "tier": args.tier, "seed": seed, "level": level, "coverage": coverage,
        "assumptions": TRUSTED_BASE + assumptions + ["A-len: records <= 256 characters", "names are separator-free literal text"],
        "wall_s": round(time.time() - t0, 3), "violations": len(new) + len(sweep_viol),
    }
    os.makedirs(os.path.join(ROOT, "evidence"), exist_ok=True)
    # evidence of runs against a scratch tree (JASM_REPO set by the self-tests) never overwrites the committed record
    scratch = os.path.realpath(os.environ.get("JASM_REPO", "/repo")) != "/repo"
    evname = f"{prop}.scratch.json" if scratch else f"{prop}.json"
    with open(os.path.join(ROOT, "evidence", evname), "w") as f:
        json.dump(ev, f, indent=1, default=str)

    for ln in lines:
        print(ln)
    if errors:
        for (sid, err) in errors:
            print(f"INTERNAL-ERROR property={prop} scenario={sid}\n{err}")
        return 1 if lines else 3
    if canary_bad:
        for o in canary_bad:
            print(f"INTERNAL-ERROR property={prop} vacuity/self-test guard {o['name']} failed: {o.get('detail', '')[:200]}")
        return 1 if lines else 3
    if lines:
        return 1
    if undecided:
        for o in undecided[:20]:
            print(f"UNDECIDED property={prop} obligation={o['name']} reason={o['detail']}")
        return 2
    print(f"OK property={prop} tier={args.tier} obligations={len(deductive)} discharged={nproved} bounded_checks={len(bounded_obs)} known_findings={len(known)} "
          f"wall={time.time() - t0:.1f}s")
    return 0


if __name__ == "__main__":
    sys.exit(main())
