"""Bounded stand-ins and conformance runs (DESIGN section 7) -- NEVER counted as proved.

Real pipeline (un-instrumented sources of $JASM_REPO, in a subprocess) against the independent reference
semantics (oracle/), on enumerated / seeded-random small cases.  Used
  * in the thorough tier of every property,
  * in the quick tier with a small budget for the properties whose claim rests partly on a bounded check,
  * to look for a concrete failing input when an obligation is refuted or undecided.
A disagreement is a VIOLATION with the input as replay file (found_by = bounded).
"""
from __future__ import annotations

import copy
import itertools
import json
import os
import random
import re
import subprocess
import sys
import time
from typing import Any, Dict, List, Optional, Tuple

ROOT = os.path.dirname(os.path.dirname(os.path.abspath(__file__)))
sys.path.insert(0, ROOT)
from oracle import den as OR            # noqa: E402
from oracle import inline as INL        # noqa: E402
from oracle import objdump_model as OM  # noqa: E402
from vf import replay                   # noqa: E402

MN = ["mov", "push", "pop", "nop", "ret", "add", "call", "xor", "and", "or"]      # and / or: mnemonics that look like operator names
MN_LIST = MN + ["movq", "nopw", "retq", "xorl"]
# operand names: with and without '%', register names that are tails of longer ones (%di / %rdi, %ax / %eax), the integers 0 and 7
# (what unquoted numbers load as)
OPN = ["%rax", "%rbx", "rax", "%eax", "0x8", "0x10", "%rcx", "%di", "%ax", 0, 7]
FIELDS_NEAR = ["%rax", "%rbx", "%eax", "%rcx", "0x8", "0x10", "0x100", "%raxx", "%rdi", "%edi", "%di", "%ax", "rax", "0x0", "0x7", "0x70"]
FIELDS = ["%rax", "%rbx", "%eax", "%rcx", "0x8", "0x10", "0x100", "%raxx", "[%rax]", "[%rax+0x8]", "[%rax+%rbx*4]", "[%rax+%rbx*4+0x8]",
          "[%rbx+0x8]", "[+%rbx*4+0x8]", "401000", ""]


# --------------------------------------------------------------------------- generators
def gen_operand(rnd: random.Random, depth: int, caps: List[str], allow_new_cap: bool) -> Any:
    r = rnd.random()
    if depth > 0 and r < 0.15:
        return {"$or": [gen_operand(rnd, depth - 1, caps, False) for _ in range(rnd.choice([2, 2, 3]))]}
    if depth > 0 and r < 0.22:
        return {"$not": [gen_operand(rnd, 0, caps, False)]}
    if r < 0.34:
        d: Dict[str, Any] = {"main_reg": rnd.choice(["%rax", "rax", "%rbx"])}
        if rnd.random() < 0.5:
            d["register_multiplier"] = rnd.choice(["%rbx", "rbx"])
            d["constant_multiplier"] = rnd.choice([4, "4"])
        if rnd.random() < 0.5:
            d["constant_offset"] = rnd.choice(["0x8", "8", 0, "0x0", 8])      # the integer 0 is what an unquoted 0 / 0x0 loads as
        return {"$deref": d}
    if r < 0.42 and (caps or allow_new_cap):
        if caps and (not allow_new_cap or rnd.random() < 0.6):
            return rnd.choice(caps)
        # names that differ only in letter case are different names
        nm = ["&n", "&N", "&save", "&Save"][len(caps)] if len(caps) < 4 else f"&o{len(caps)}"
        caps.append(nm)
        return nm
    return rnd.choice(OPN)


def gen_times(rnd: random.Random) -> Optional[Any]:
    r = rnd.random()
    if r < 0.65:
        return None
    if r < 0.8:
        return rnd.choice([1, 2, 3])
    a = rnd.choice([0, 1, 2])
    return {"min": a, "max": a + rnd.choice([0, 1, 2])}


def gen_item(rnd: random.Random, depth: int, caps: List[str], spine: bool) -> Any:
    r = rnd.random()
    if depth > 0 and r < 0.3:
        op = rnd.choice(["$or", "$and", "$and_any_order", "$not"])
        n = 1 if op == "$not" else rnd.choice([2, 2, 3])
        kids = [gen_item(rnd, depth - 1, caps, False) for _ in range(n)]
        if op != "$not" and rnd.random() < 0.25:
            # an operator nested directly in the same operator
            kids[rnd.randrange(len(kids))] = {op: [rnd.choice(MN), rnd.choice(MN)]}
        t = gen_times(rnd) if not spine or rnd.random() < 0.5 else None
        d: Dict[str, Any] = {op: kids}
        if t is not None:
            d["times"] = t
        return d
    name = rnd.choice(MN)
    nops = rnd.choice([0, 0, 1, 1, 2])
    t = gen_times(rnd)
    allow_new = spine and t is None
    ops = [gen_operand(rnd, 1, caps, allow_new) for _ in range(nops)]
    if not ops and t is None:
        return name
    if not ops:
        return {name: {"times": t}}
    d = {name: ops}
    if t is not None:
        d["times"] = t
    return d


def item_nullable(item: Any) -> bool:
    """can the item match the empty sequence?"""
    if isinstance(item, (str, int)):
        return False
    name = list(item.keys())[0]
    body = item[name]
    t = item.get("times", body.get("times") if isinstance(body, dict) else None)
    lo = t if isinstance(t, int) else (t.get("min", 1) if isinstance(t, dict) else 1)
    if lo == 0:
        return True
    if name == "$or":
        return any(item_nullable(c) for c in body)
    if name in ("$and", "$and_any_order"):
        return all(item_nullable(c) for c in body)
    return False


def gen_rule(rnd: random.Random) -> Dict[str, Any]:
    while True:
        r = _gen_rule(rnd)
        # C07 / C11 are stated for patterns that cannot match the empty sequence
        if not all(item_nullable(it) for it in r["pattern"]):
            return r


def _gen_rule(rnd: random.Random) -> Dict[str, Any]:
    caps: List[str] = []
    n = rnd.choice([1, 2, 2, 3])
    items = []
    for k in range(n):
        it = gen_item(rnd, 2, caps, True)
        items.append(it)
    # the first item must not be able to match the empty sequence (C11 / C07 precondition)
    first = items[0]
    if isinstance(first, dict) and "times" in first:
        del first["times"]
    if isinstance(first, dict):
        k0 = list(first.keys())[0]
        if isinstance(first[k0], dict) and "times" in first[k0]:
            items[0] = k0
    cfg = {"mnemonics-full-match": rnd.random() < 0.3, "operands-full-match": rnd.random() < 0.3}
    return {"config": cfg, "pattern": items}


def _plant_field(rnd: random.Random, op: Any, env: Dict[str, str]) -> str:
    if isinstance(op, dict):
        k = list(op.keys())[0]
        if k == "$or":
            return _plant_field(rnd, rnd.choice(op[k]), env)
        if k == "$not":
            return rnd.choice(FIELDS_NEAR)
        if k == "$deref":
            d = op[k]
            reg = lambda x: x if str(x).startswith("%") else "%" + str(x)
            num = lambda x: x if str(x).startswith("0x") else "0x" + str(x)
            s = reg(d["main_reg"])
            if "register_multiplier" in d:
                s += "+" + reg(d["register_multiplier"]) + "*" + str(d.get("constant_multiplier", 1))
            if "constant_offset" in d:
                s += "+" + num(d["constant_offset"])
            return "[" + s + "]"
        return rnd.choice(FIELDS_NEAR)
    op = str(op)
    if op.startswith("&"):
        return env.setdefault(op, rnd.choice(FIELDS[:6]))
    return rnd.choice([op, op, "%" + op if not op.startswith(("%", "0")) else op, op + "x"])


def _plant(rnd: random.Random, item: Any, env: Dict[str, str], out: List[Tuple[str, List[str]]]):
    if isinstance(item, (str, int)):
        out.append((rnd.choice([str(item), str(item), str(item) + "q"]), [""]))
        return
    name = list(item.keys())[0]
    body = item[name]
    t = item.get("times", body.get("times") if isinstance(body, dict) else None)
    reps = 1
    if isinstance(t, int):
        reps = t
    elif isinstance(t, dict):
        reps = rnd.randint(t.get("min", 1), t.get("max", 1))
    for _ in range(reps):
        if name == "$or":
            _plant(rnd, rnd.choice(body), env, out)
        elif name in ("$and", "$and_any_order"):
            kids = list(body)
            if name == "$and_any_order":
                rnd.shuffle(kids)
            for c in kids:
                _plant(rnd, c, env, out)
        elif name == "$not":
            out.append((rnd.choice(MN_LIST), [rnd.choice(FIELDS_NEAR)]))
        else:
            ops = body if isinstance(body, list) else []
            fields = [_plant_field(rnd, o, env) for o in ops] or [""]
            if rnd.random() < 0.3:
                fields.append(rnd.choice(FIELDS_NEAR))
            out.append((rnd.choice([str(name), str(name), str(name) + "l"]), fields))


def gen_records(rnd: random.Random, rule: Dict[str, Any]) -> List[Tuple[str, str, List[str]]]:
    body: List[Tuple[str, List[str]]] = []
    if rnd.random() < 0.7:
        # plant a (near-)occurrence of the pattern, surrounded by / interrupted with other instructions
        env: Dict[str, str] = {}
        for it in rule["pattern"]:
            _plant(rnd, it, env, body)
            if rnd.random() < 0.12:
                body.append((rnd.choice(MN_LIST), [rnd.choice(FIELDS_NEAR)]))
        if rnd.random() < 0.3 and body:
            body = body + body           # adjacent occurrences
        pre = [(rnd.choice(MN_LIST), [rnd.choice(FIELDS)]) for _ in range(rnd.choice([0, 1, 2]))]
        body = pre + body + [(rnd.choice(MN_LIST), [""]) for _ in range(rnd.choice([0, 1]))]
        if rnd.random() < 0.25 and body:
            del body[rnd.randrange(len(body))]
    else:
        for k in range(rnd.choice([1, 2, 3, 4, 5, 6])):
            nf = rnd.choice([0, 1, 1, 2, 2, 3])
            body.append((rnd.choice(MN_LIST), [rnd.choice(FIELDS[:-1]) for _ in range(nf)] or [""]))
    body = body[:14]
    base = rnd.choice([0x10, 0x400000, 0xa0, 0xf4, 0xff7])      # the last two cross a hex digit-width boundary
    out = [(format(base + k * 3, "x"), mn, fields) for k, (mn, fields) in enumerate(body)]
    if rnd.random() < 0.3 and len(out) >= 2:
        # several code sections of a relocatable object restart at the same address
        h = len(out) // 2
        out = out[:h] + [(format(base + k * 3, "x"), mn, f) for k, (_a, mn, f) in enumerate(out[h:])]
    return out


# --------------------------------------------------------------------------- den sweep (C01-C07, C11, C12)
def _fixed_den_cases():
    """deterministic rule / listing pairs at the edges of the generators (always part of the den sweep)"""
    R = lambda *ops: [(format(0x10 + 3 * k, "x"), mn, list(f)) for k, (mn, f) in enumerate(ops)]
    d8 = lambda a, b: {"$deref": {"main_reg": [{"$or": [a, b]}], "constant_offset": "0x8"}}
    return [
        # capture names that differ only in letter case are different names
        ({"pattern": [{"mov": ["&N", "&n"]}]}, R(("mov", ["0x10", "%rax"]))),
        ({"pattern": [{"mov": ["&N", "&n"]}]}, R(("mov", ["%rax", "%rax"]))),
        ({"pattern": ["&Save", "&save", "&Save"]}, R(("push", ["%rbp"]), ("ret", [""]), ("push", ["%rbp"]))),
        # operand names with '%': a literal name, not "the register, however it is spelled"
        ({"pattern": [{"mov": ["%di", "%rax"]}]}, R(("mov", ["%rdi", "%rax"]))),
        ({"pattern": [{"mov": ["%ax"]}]}, R(("mov", ["%eax", "%ebx"]))),
        ({"pattern": [{"mov": ["%rax"]}]}, R(("mov", ["rax", "%rbx"]))),
        ({"config": {"operands-full-match": True}, "pattern": [{"mov": ["%rax", "%rbx"]}]}, R(("mov", ["rax", "%rbx"]), ("mov", ["%rax", "%rbx"]))),
        # two $deref items that differ only in the alternatives of an operator field
        ({"pattern": [{"mov": [d8("rsp", "rbp"), "%rax"]}, {"mov": [d8("rdi", "rsi"), "%rax"]}]},
         R(("mov", ["[%rsp+0x8]", "%rax"]), ("mov", ["[%rdi+0x8]", "%rax"]))),
        ({"pattern": [{"mov": [d8("rsp", "rbp"), "%rax"]}, {"mov": [d8("rdi", "rsi"), "%rax"]}]},
         R(("mov", ["[%rsp+0x8]", "%rax"]), ("mov", ["[%rbp+0x8]", "%rax"]))),
        # the integer 0 as an operand / alternative / $deref offset inside operators
        ({"pattern": [{"mov": [{"$or": [0, 7]}, "eax"]}]}, R(("mov", ["0x0", "%eax"]))),
        ({"pattern": [{"mov": [{"$and": [0, "eax"]}]}]}, R(("mov", ["%eax", "%ebx"]))),
        ({"pattern": [{"mov": [{"$and_any_order": ["eax", 0]}]}]}, R(("mov", ["0x0", "%eax"]), ("mov", ["%eax", "%ebx"]))),
        # an operator nested in $and_any_order is ONE unit of the permutation: its items stay together and in order
        ({"pattern": ["push", {"$and_any_order": ["nop", {"$and": ["inc", "dec"]}]}, "leave"]},
         R(("push", [""]), ("inc", [""]), ("nop", [""]), ("dec", [""]), ("leave", [""]))),
        ({"pattern": ["push", {"$and_any_order": ["nop", {"$and": ["inc", "dec"]}]}, "leave"]},
         R(("push", [""]), ("nop", [""]), ("dec", [""]), ("inc", [""]), ("leave", [""]))),
        ({"pattern": ["push", {"$and_any_order": ["nop", {"$and": ["inc", "dec"]}]}, "leave"]},
         R(("push", [""]), ("inc", [""]), ("dec", [""]), ("nop", [""]), ("leave", [""]))),
        # repeated children of $and_any_order: each child is used exactly once
        ({"pattern": ["push", {"$and_any_order": ["nop", "nop", "ret"]}, "pop"]}, R(("push", [""]), ("nop", [""]), ("ret", [""]), ("pop", [""]))),
        ({"pattern": ["push", {"$and_any_order": ["nop", "nop", "ret"]}, "pop"]}, R(("push", [""]), ("nop", [""]), ("nop", [""]), ("ret", [""]), ("pop", [""]))),
        # a range followed by an item that can match the same instruction (the run must be able to give repetitions back)
        ({"pattern": [{"push": {"times": {"min": 1, "max": 3}}}, "push", "mov"]}, R(("push", ["%rbp"]), ("push", ["%rbx"]), ("mov", ["%rsp", "%rbp"]))),
        ({"pattern": [{"mov": {"times": {"min": 1, "max": 2}}}, "movl"]}, R(("movl", ["%eax", "%ebx"]), ("movl", ["%eax", "%ecx"]))),
        # $not of a bare mnemonic under mnemonics-full-match: longer mnemonics are NOT the negated one
        ({"config": {"mnemonics-full-match": True}, "pattern": [{"$not": ["mov"]}, "ret"]},
         R(("movl", ["%eax", "%ebx"]), ("ret", [""]), ("mov", ["%eax", "%ebx"]), ("ret", [""]), ("cmovne", ["%eax", "%ebx"]), ("ret", [""]))),
        # operand-level $not consumes exactly one operand
        ({"pattern": [{"mov": [{"$not": ["rax"]}, "rbx"]}]}, R(("mov", ["%rbx", "%rax"]), ("mov", ["%rcx", "%rbx"]))),
        ({"pattern": [{"mov": ["rsp", {"$not": ["eax"]}, "rbp"]}]}, R(("mov", ["%rsp", "%rbp"]))),
        # $not as a member of an operator group INSIDE an operand list: still one operand, typed at operand level
        ({"pattern": [{"mov": [{"$or": [{"$not": ["rax"]}, "rsp"]}, "rbx"]}]}, [("10", "mov", ["%rax", "%rbx"]), ("13", "mov", ["%rcx", "%rbx"]), ("16", "ret", [""])]),
        ({"pattern": [{"mov": [{"$and": [{"$not": ["rax"]}, "rbx"]}]}]}, [("10", "mov", ["%rax", "%rbx"]), ("13", "mov", ["%rcx", "%rbx"]), ("16", "ret", [""])]),
        ({"pattern": [{"mov": [{"$and_any_order": [{"$not": ["rax"]}, "rdx"]}]}]}, [("10", "mov", ["%rax", "%rdx"]), ("13", "mov", ["%rdx", "%rcx"]), ("16", "ret", [""])]),
        # names that differ from the listing only in case never match, also under $not (matching is case-sensitive)
        ({"pattern": [{"$not": ["CALL"]}, "ret"]}, [("10", "call", ["401000"]), ("15", "ret", [""])]),
        ({"pattern": [{"mov": [{"$not": ["RAX"]}, "rbx"]}]}, [("10", "mov", ["%rax", "%rbx"]), ("13", "ret", [""])]),
        ({"pattern": ["PUSH"]}, [("10", "push", ["%rbp"]), ("11", "ret", [""])]),
        # two-digit bounds of a repetition (9..10, 2..10, 8..12): bounds are numbers, never compared as text
        ({"pattern": ["push", {"nop": {"times": {"min": 2, "max": 10}}}, "pop"]}, [("10", "push", ["%rbp"])] + [(format(0x11 + k, "x"), "nop", [""]) for k in range(3)] + [("20", "pop", ["%rbp"])]),
        ({"pattern": ["push", {"nop": {"times": {"min": 9, "max": 10}}}, "pop"]}, [("10", "push", ["%rbp"])] + [(format(0x11 + k, "x"), "nop", [""]) for k in range(10)] + [("20", "pop", ["%rbp"])]),
        ({"pattern": ["push", {"nop": {"times": {"min": 9, "max": 10}}}, "pop"]}, [("10", "push", ["%rbp"])] + [(format(0x11 + k, "x"), "nop", [""]) for k in range(8)] + [("20", "pop", ["%rbp"])]),
        ({"pattern": ["push", {"$and": ["nop", "inc"], "times": {"min": 8, "max": 12}}, "pop"]}, [("10", "push", ["%rbp"])] + [(format(0x11 + k, "x"), ("nop", "inc")[k % 2], [("", "%eax")[k % 2]]) for k in range(18)] + [("40", "pop", ["%rbp"])]),
        # addresses that are not increasing (sections of an object file restart at 0): consecutive means consecutive IN THE LISTING
        ({"pattern": ["mov", "xor"]}, [("0", "push", ["%rbp"]), ("1", "mov", ["%rsp", "%rbp"]), ("0", "xor", ["%eax", "%eax"]), ("2", "ret", [""])]),
        ({"pattern": ["push", "xor"]}, [("0", "push", ["%rbp"]), ("1", "mov", ["%rsp", "%rbp"]), ("0", "xor", ["%eax", "%eax"]), ("2", "ret", [""])]),
        ({"pattern": ["ret", "push"]}, [("10", "push", ["%rbp"]), ("11", "ret", [""]), ("0", "push", ["%rbx"]), ("1", "ret", [""])]),
        # `times` written inside the body of a $deref operand
        ({"pattern": [{"lea": [{"$deref": {"main_reg": "rax", "times": 1}}, "rbx"]}]}, R(("lea", ["[%rax]", "%rbx"]))),
        ({"pattern": [{"lea": [{"$deref": {"main_reg": "rax", "times": {"min": 0, "max": 1}}}, "rbx"]}]}, R(("lea", ["[%rax]", "%rbx"]), ("lea", ["%rbx"]))),
    ]


def den_sweep(n: int, seed: int) -> Tuple[Dict[str, Any], List[Dict[str, Any]]]:
    rnd = random.Random(seed * 7919 + 17)
    cases = list(_fixed_den_cases())
    for _ in range(n):
        rule = gen_rule(rnd)
        for _k in range(3):
            cases.append((rule, gen_records(rnd, rule)))
    jobs = [{"rule": r, "insts": replay.insts_of(recs), "mode": "all"} for (r, recs) in cases]
    res = replay.run_real(jobs, timeout=1800)
    viol = []
    distinct = set()
    nontrivial = 0
    for (rule, recs), r in zip(cases, res):
        distinct.add(json.dumps(rule, sort_keys=True))
        if r.get("spans"):
            nontrivial += 1
        why = replay.compare(rule, recs, r)
        if why:
            viol.append({"input": {"rule": rule, "instructions": replay.insts_of(recs)}, "real": {k: r.get(k) for k in ("regex", "addr_list", "error")},
                         "disagreement": why})
    cov = {"den_sweep": {"cases": len(cases), "distinct_rules": len(distinct), "cases_with_a_match": nontrivial,
                         "bound": "rules of <= 3 items, nesting depth <= 2, listings of <= 6 instructions; seeded random"}}
    return cov, viol


# --------------------------------------------------------------------------- mode agreement (C12)
ALL_MODES = [[rm, sm, oa] for rm in ("bool", "matched_addrs_list") for sm in ("first_find", "all_finds") for oa in (False, True)]


def listing_of(recs) -> str:
    """objdump-format listing whose parse gives back the records (only for parser-round-trippable fields)"""
    lines = ["", "x.bin:     file format elf64-x86-64", "", "", "Disassembly of section .text:", "", "0000000000000000 <f>:"]
    for (a, m, f) in recs:
        ops = ",".join(denormalise(x) for x in f if x != "")
        lines.append(f"  {a}:\t90                   \t{m}" + (f"   {ops}" if ops else ""))
    return "\n".join(lines) + "\n"


def denormalise(field: str) -> str:
    """inverse of the operand normal form (for the fields used by the generators)"""
    if field.startswith("[") and field.endswith("]"):
        c = OR.Sem.parse_bracket(field[1:-1])
        a, b, cc, k = c["main_reg"], c["register_multiplier"], c["constant_multiplier"], c["constant_offset"]
        inner = (a or "") + (f",{b},{cc}" if b else "")
        return f"{k or ''}({inner})"
    if field.startswith("0x"):
        return "$" + field
    return field


def modes_sweep(n: int, seed: int) -> Tuple[Dict[str, Any], List[Dict[str, Any]]]:
    rnd = random.Random(seed * 104729 + 5)
    # always: listings in which addresses repeat (several sections / archive members restart at 0), with equal and with
    # different instruction text at the repeated address, and a pattern that can match the empty sequence
    cases = [
        ({"pattern": ["push"]}, [("0", "push", ["%rbp"]), ("1", "ret", [""]), ("0", "push", ["%rbx"]), ("1", "ret", [""])]),
        ({"pattern": ["push"]}, [("0", "push", ["%rbp"]), ("1", "ret", [""]), ("0", "push", ["%rbp"]), ("1", "ret", [""])]),
        ({"pattern": ["call", "test"]}, [("1", "call", ["30"]), ("6", "test", ["%eax", "%eax"]), ("0", "nop", [""]), ("1", "call", ["30"]),
                                          ("6", "test", ["%eax", "%eax"])]),
        ({"pattern": [{"nop": {"times": {"min": 0, "max": 3}}}]}, [("10", "push", ["%rbp"]), ("11", "nop", [""]), ("12", "nop", [""]), ("13", "ret", [""])]),
        ({"pattern": [{"call": {"times": {"min": 0, "max": 2}}}]}, [("10", "push", ["%rbp"]), ("11", "ret", [""])]),
        ({"pattern": ["ret"]}, [("ff8", "ret", [""]), ("ffd", "nop", [""]), ("1004", "ret", [""]), ("1009", "ret", [""])]),
        # addresses of any number of digits (kernel / PE images: 16 digits; wider spellings are still addresses)
        ({"pattern": ["push", "mov"]}, [("ffffffff81000000", "push", ["%rbp"]), ("ffffffff81000001", "mov", ["%rsp", "%rbp"]), ("ffffffff81000004", "ret", [""])]),
        ({"pattern": ["push", "mov"]}, [("0ffffffff81000000", "push", ["%rbp"]), ("0ffffffff81000001", "mov", ["%rsp", "%rbp"]),
                                         ("0ffffffff81000004", "push", ["%rbx"]), ("0ffffffff81000005", "mov", ["%rdi", "%rbx"])]),
        ({"pattern": ["ret"]}, [("00000000ffffffff81000000", "ret", [""]), ("00000000ffffffff81000001", "nop", [""]), ("00000000ffffffff81000002", "ret", [""])]),
        # objdump -d of a static archive: one "file format" title per member, addresses restart
        ({"pattern": ["call"]}, "In archive libdemo.a:\n\na.o:     file format elf64-x86-64\n\n\nDisassembly of section .text:\n\n0000000000000000 <f>:\n"
                                "   0:\t55                   \tpush   %rbp\n   4:\te8 00 00 00 00       \tcall   9 <f+0x9>\n   9:\tc3                   \tret\n"
                                "\nb.o:     file format elf64-x86-64\n\n\nDisassembly of section .text:\n\n0000000000000000 <g>:\n"
                                "   0:\t90                   \tnop\n   5:\te8 00 00 00 00       \tcall   a <g+0xa>\n   a:\tc3                   \tret\n"),
    ]
    for _ in range(n):
        rule = gen_rule(rnd)
        recs = gen_records(rnd, rule)
        cases.append((rule, recs))
    text_of = lambda recs_: recs_ if isinstance(recs_, str) else listing_of(recs_)
    jobs = [{"kind": "mop", "rule": r, "listing": text_of(recs), "modes": ALL_MODES} for (r, recs) in cases]
    res = replay.run_real(jobs, timeout=1800)
    viol = []
    for (rule, recs), r in zip(cases, res):
        why = modes_agree(r)
        if why:
            viol.append({"input": {"rule": rule, "listing": text_of(recs)}, "real": r, "disagreement": why})
    return {"modes_sweep": {"cases": len(cases), "modes_per_case": 8, "bound": "same generators as den_sweep, through MasterOfPuppets on a listing file"}}, viol


def modes_agree(r: Dict[str, Any]) -> Optional[str]:
    res = {tuple(x["mode"]): x for x in r.get("results", [])}
    errs = [x for x in res.values() if "error" in x]
    if errs and len(errs) != len(res):
        return f"some modes raise and others do not: {[(x['mode'], x.get('error')) for x in res.values()]}"
    if errs:
        return None
    g = lambda rm, sm, oa: res[(rm, sm, oa)]["result"]
    for sm in ("first_find", "all_finds"):
        for oa in (False, True):
            if g("bool", sm, oa) != (len(g("matched_addrs_list", sm, oa)) > 0):
                return f"bool result {g('bool', sm, oa)} but address list {g('matched_addrs_list', sm, oa)} ({sm}, only_addr={oa})"
    for oa in (False, True):
        allm, first = g("matched_addrs_list", "all_finds", oa), g("matched_addrs_list", "first_find", oa)
        if first != allm[:1]:
            return f"first-match list {first} is not the one-element prefix of the all-matches list {allm} (only_addr={oa})"
    for sm in ("first_find", "all_finds"):
        full, addr = g("matched_addrs_list", sm, False), g("matched_addrs_list", sm, True)
        if [t.split("::")[0] for t in full] != addr:
            return f"address-only list {addr} is not the address prefix of the full matches {full} ({sm})"
    vals = set(g("bool", sm, oa) for sm in ("first_find", "all_finds") for oa in (False, True))
    if len(vals) != 1:
        return f"the verdict depends on the mode: {vals}"
    return None


# --------------------------------------------------------------------------- macros (C13, C19)
def macro_cases(rnd: random.Random, n: int):
    """(macro rule, extra macro docs) built by factoring parts of a macro-free rule into macros"""
    out = []
    for _ in range(n):
        base = gen_rule(rnd)
        base["pattern"] = [x for x in base["pattern"]]
        macros: List[Dict[str, Any]] = []
        pat = copy.deepcopy(base["pattern"])
        k = 0
        # whole-item macros (list pattern)
        for i, it in enumerate(list(pat)):
            if isinstance(it, dict) and rnd.random() < 0.5:
                k += 1
                nm = f"@item{k}"
                macros.append({"name": nm, "pattern": [copy.deepcopy(it)]})
                pat[i] = nm
                if rnd.random() < 0.4:          # second use of the same macro
                    pat.append(nm)
            elif isinstance(it, str) and rnd.random() < 0.4:
                k += 1
                nm = f"@mn{k}"
                macros.append({"name": nm, "pattern": it})
                pat[i] = nm if rnd.random() < 0.6 else {nm: {"times": rnd.choice([1, 2])}}
        # parameterised macro with two calls whose arguments differ
        if rnd.random() < 0.6:
            a1, a2 = rnd.sample(OPN + [0, 1], 2)        # immediates are written as YAML integers too (0 is falsy)
            b1, b2 = rnd.sample(OPN, 2)
            macros.append({"name": "@two", "args": ["x", "y"], "pattern": [{"mov": ["x", "y"]}]})
            pat.append({"@two": {"x": a1, "y": b1}})
            pat.append({"@two": {"x": b2 if rnd.random() < 0.5 else "y", "y": a2}})
        # string macro used inside a name (bodies may hold regex escapes: names reach the regex unescaped)
        if rnd.random() < 0.5:
            body = rnd.choice(["ax", "ax", "[0-9a-f]+\\b", "\\d+", "a\\wx"])
            macros.append({"name": "@sfx", "pattern": body})
            pat.append({"push": ["%r@sfx"]})
        # nested: a macro whose body uses another macro listed after it
        if rnd.random() < 0.4:
            macros.append({"name": "@outer", "pattern": [{"$or": ["@inner", "nop"]}]})
            macros.append({"name": "@inner", "pattern": "ret"})
            pat.append("@outer")
        if not macros:
            continue
        rnd.shuffle_ok = True
        split = rnd.randrange(0, len(macros) + 1) if rnd.random() < 0.5 else len(macros)
        # keep relative order: extra files first, then the rule's own
        own, extra = macros[split:], macros[:split]
        docs = []
        if extra:
            cut = rnd.randrange(0, len(extra) + 1)
            docs = [{"macros": d} for d in (extra[:cut], extra[cut:]) if d]
        rule = {"config": base["config"], "macros": own, "pattern": pat}
        if not own:
            del rule["macros"]
        out.append((rule, docs))
    return out


def macros_sweep(n: int, seed: int) -> Tuple[Dict[str, Any], List[Dict[str, Any]]]:
    rnd = random.Random(seed * 31 + 3)
    cases = macro_cases(rnd, n)
    jobs, expect = [], []
    for (rule, docs) in cases:
        jobs.append({"kind": "compile", "rule": rule, "macros_files": docs})
        try:
            inl = INL.inline(rule, docs)
            jobs.append({"kind": "compile", "rule": inl})
            expect.append("ok")
        except INL.Undefined as e:
            jobs.append({"kind": "compile", "rule": {"pattern": ["nop"]}})
            expect.append("undefined")
    res = replay.run_real(jobs, timeout=1800)
    viol = []
    for i, (rule, docs) in enumerate(cases):
        a, b = res[2 * i], res[2 * i + 1]
        if expect[i] == "undefined":
            if "error" not in a:
                viol.append({"input": {"rule": rule, "macros_files": docs}, "real": a, "disagreement": "an undefined macro reference compiled silently"})
            continue
        if "error" in a or "error" in b or a.get("regex") != b.get("regex"):
            viol.append({"input": {"rule": rule, "macros_files": docs, "inlined": INL.inline(rule, docs)}, "real": {"macro": a, "inlined": b},
                         "disagreement": "the rule written with macros does not compile to the same matcher as the manually inlined rule"})
    # extra macro files through the public entry point (MatchConfig -> MasterOfPuppets), given in an order that is NOT the order of their
    # names: a macro of the first file uses macros of the second one (the supported direction), in a name and as a whole value
    idioms = {"macros": [{"name": "@clear_acc", "pattern": [{"xor": ["%@acc", "%@acc"]}]},
                         {"name": "@leave_function", "pattern": ["@ret_like"]}]}
    accs = {"macros": [{"name": "@acc", "pattern": "eax"}, {"name": "@ret_like", "pattern": "ret"}]}
    order_listing = listing_of([("401000", "push", ["%rbp"]), ("401001", "xor", ["%eax", "%eax"]), ("401003", "ret", [""])])
    modes = [["matched_addrs_list", "all_finds", True]]
    ojobs = []
    for names in (["z_idioms.yaml", "a_accumulators.yaml"], ["a_idioms.yaml", "z_accumulators.yaml"]):
        ojobs.append({"kind": "mop", "rule": {"pattern": ["@clear_acc", "@leave_function"]}, "macros_files": [idioms, accs],
                      "macros_file_names": names, "listing": order_listing, "modes": modes})
    ojobs.append({"kind": "mop", "rule": {"pattern": [{"xor": ["%eax", "%eax"]}, "ret"]}, "listing": order_listing, "modes": modes})
    ores = replay.run_real(ojobs, timeout=600)
    want = ores[-1].get("results")
    for jb, r in zip(ojobs[:-1], ores[:-1]):
        if r.get("results") != want:
            viol.append({"input": {"rule": jb["rule"], "macros_files": jb["macros_files"], "macros_file_names": jb["macros_file_names"],
                                   "listing": order_listing},
                         "real": {"macro": r.get("results"), "inlined": want},
                         "disagreement": "a rule whose macros come from two extra files (given in the supported order) does not match like the inlined rule "
                                         f"when the files are named {jb['macros_file_names']}"})
    return {"macros_sweep": {"cases": len(cases) + 2, "bound": "factorings of den_sweep rules into <= 6 macros (whole item, name, times body, "
                             "parameterised with two calls, inside a name, nested), split over <= 2 extra files; seeded random"}}, viol


def resolver_sweep() -> Tuple[Dict[str, Any], List[Dict[str, Any]]]:
    """MacroArgsResolver.resolve == simultaneous substitution of the call's argument values for the formal
    parameters, on every macro body of the enumerated space (exhaustive within the bound)"""
    leaves = ["x", "y", "rax"]
    depth1: List[Any] = list(leaves)
    lists = [[a] for a in leaves] + [[a, b] for a in leaves for b in leaves]
    dicts = [{"mov": l} for l in lists] + [{"$deref": {"main_reg": a, "constant_offset": b}} for a in leaves for b in leaves]
    level2 = [[d] for d in dicts] + [[{"$or": [d1, d2]}] for d1 in dicts[:6] for d2 in dicts[6:12]] + \
             [[{"$and": [d, a]}] for d in dicts[:9] for a in leaves]
    values = ["y", "x", "rbx", {"$or": ["p", "q"]}, 7, 0]
    cases = []
    for body in level2:
        for formals in (["x"], ["x", "y"]):
            for vals in itertools.product(values, repeat=len(formals)):
                # the call may write the argument keys in any order (a mapping), and may omit a formal
                orders = [list(zip(formals, vals))]
                if len(formals) == 2:
                    orders.append(list(reversed(orders[0])))
                    orders.append(orders[0][1:])
                for kv in orders:
                    call = {"@m": dict(kv)}
                    macro = {"name": "@m", "args": list(formals), "pattern": copy.deepcopy(body)}
                    cases.append((macro, call))
                # the same call with its arguments written as a YAML list of one-entry mappings under the macro name
                cases.append(({"name": "@m", "args": list(formals), "pattern": copy.deepcopy(body)},
                              {"@m": [{k_: v_} for k_, v_ in orders[0]]}))
    # formal parameters whose NAME is also a key of the macro body ($deref field names, `times`): only the values are replaced
    for fname, body_, val in (("main_reg", [{"mov": [{"$deref": {"main_reg": "main_reg"}}, "rbx"]}], "rax"),
                              ("constant_offset", [{"mov": [{"$deref": {"main_reg": "rax", "constant_offset": "constant_offset"}}]}], "0x8"),
                              ("main_reg", [{"$or": [{"mov": [{"$deref": {"main_reg": "main_reg"}}]}, {"lea": ["main_reg", "rbx"]}]}], "%rcx")):
        cases.append(({"name": "@m", "args": [fname], "pattern": copy.deepcopy(body_)}, {"@m": {fname: val}}))
    res = replay.run_real({"kind": "resolver", "cases": cases}, timeout=1800)["results"]
    viol = []
    for (macro, call), r in zip(cases, res):
        mapping = dict(call["@m"]) if isinstance(call["@m"], dict) else {k_: v_ for d_ in call["@m"] for k_, v_ in d_.items()}
        want = INL._subst_args(copy.deepcopy(macro["pattern"]), mapping)
        if r.get("pattern") != want:
            viol.append({"input": {"macro": macro, "call": call}, "real": r, "expected": want,
                         "disagreement": "MacroArgsResolver.resolve is not the simultaneous substitution of the argument values for the formal parameters"})
    return {"resolver_sweep": {"cases": len(cases), "exhaustive": True,
                               "bound": "bodies of depth <= 3 (one item: mov/$deref/$or/$and over leaves x, y, rax), 1-2 formals, 6 argument values "
                                        "(incl. a value spelled like the other formal, a subtree, the integers 7 and 0)"}}, viol[:5]


def undefined_macro_sweep() -> Tuple[Dict[str, Any], List[Dict[str, Any]]]:
    """C19: an undefined @name in every position of the quantifier must raise"""
    defs = [{"name": "@m", "pattern": "push"}, {"name": "@z", "args": ["reg"], "pattern": [{"xor": ["reg", "reg"]}]}]
    positions = {
        "list-item": ["@m", "@undef"],
        "operand": ["@m", {"mov": ["@undef", "rax"]}],
        "dict-value": ["@m", {"mov": [{"$deref": {"main_reg": "@undef"}}]}],
        "dict-key-with-body": ["@m", {"@undef": {"times": 2}}],
        "dict-key-call": ["@m", {"@undef": {"reg": "rax"}}],
        "argument-value": ["@m", {"@z": {"reg": "@undef"}}],
        "inside-or": ["@m", {"$or": ["@undef", "nop"]}],
        # a DEFINED subtree macro referenced inside a text (it cannot be expanded there): loud, never kept
        "subtree-macro-inside-text": ["@m", {"mov": ["%@z"]}],
        # deep inside nested operators (dict key with a body: only the final scan of the expanded tree sees it)
        "nested-6": ["@m", {"$or": [{"$and": [{"$or": [{"$and": [{"$or": [{"$and": [{"@undef": {"times": 2}}, "nop"]}, "ret"]}, "nop"]}, "ret"]}, "nop"]}, "ret"]}],
        "nested-6-operands": ["@m", {"$or": [{"$and": [{"$or": [{"$and": [{"$or": [{"$and": [{"@undef": ["%cl", "rax"]}, "nop"]}, "ret"]}, "nop"]}, "ret"]}, "nop"]}, "ret"]}],
    }
    jobs, ids = [], []
    # the supplied definitions are NOT used by the rule at all (only the undefined name is referenced); names that are not
    # identifiers (typos with '-' or '.'); a definition whose own name lacks '@' and is never used
    for pid, pat in positions.items():
        unused = [x for x in pat if x != "@m"] or ["nop"]
        for where in ("rule", "file"):
            rule = {"pattern": unused}
            docs = []
            if where == "rule":
                rule["macros"] = defs
            else:
                docs = [{"macros": defs}]
            jobs.append({"kind": "compile", "rule": rule, "macros_files": docs})
            ids.append((pid + ":definitions-unused", "as-is", where, rule, docs))
    for nm in ("@any-shift", "@regs.src", "@a b"):
        rule = {"macros": defs, "pattern": ["@m", {"mov": [nm, "rax"]}]}
        jobs.append({"kind": "compile", "rule": rule})
        ids.append((f"odd-name:{nm}", "as-is", "rule", rule, []))
    rule = {"macros": [{"name": "shifts", "pattern": "shl"}], "pattern": ["nop"]}
    jobs.append({"kind": "compile", "rule": rule})
    ids.append(("definition-name-without-@-unused", "as-is", "rule", rule, []))
    for pid, pat in positions.items():
        for order in ("as-is", "reversed"):
            ds = defs if order == "as-is" else list(reversed(defs))
            for where in ("rule", "file"):
                rule = {"pattern": pat}
                docs = []
                if where == "rule":
                    rule["macros"] = ds
                else:
                    docs = [{"macros": ds}]
                jobs.append({"kind": "compile", "rule": rule, "macros_files": docs})
                ids.append((pid, order, where, rule, docs))
    # inside a macro body, defined before / after its user
    for order in ("user-first", "user-last"):
        body_defs = [{"name": "@user", "pattern": [{"$or": ["@undef", "nop"]}]}, {"name": "@m", "pattern": "push"}]
        if order == "user-last":
            body_defs.reverse()
        rule = {"macros": body_defs, "pattern": ["@user", "@m"]}
        jobs.append({"kind": "compile", "rule": rule})
        ids.append(("inside-macro-body", order, "rule", rule, []))
        # a DEFINED macro referenced from a body, listed before / after its user: expanded or reported, never kept
        body_defs2 = [{"name": "@user", "pattern": [{"$or": ["@m", "nop"]}]}, {"name": "@m", "pattern": "push"}]
        if order == "user-last":
            body_defs2.reverse()
        rule2 = {"macros": body_defs2, "pattern": ["@user"]}
        jobs.append({"kind": "compile", "rule": rule2})
        ids.append(("defined-in-body", order, "rule", rule2, []))
        # ... and the rule ALSO uses that macro directly (the direct use is expanded; the one that arrives with the body is a
        # second, separate reference: expanded or reported as well), as a pattern item and as an operand
        rule3 = {"macros": body_defs2, "pattern": ["@user", "@m"]}
        jobs.append({"kind": "compile", "rule": rule3})
        ids.append(("defined-in-body", order + ":direct-use-too", "rule", rule3, []))
        body_defs4 = [{"name": "@user", "pattern": [{"push": ["@r"]}]}, {"name": "@r", "pattern": "%r11"}]
        if order == "user-last":
            body_defs4.reverse()
        rule4 = {"macros": body_defs4, "pattern": [{"mov": ["%rax", "@r"]}, "@user"]}
        jobs.append({"kind": "compile", "rule": rule4})
        ids.append(("defined-in-body", order + ":direct-operand-use-too", "rule", rule4, []))
    # one string macro referenced several times inside ONE text: every reference is expanded
    for tid, text in (("inside", "%@r+@r*8"), ("at-start", "@r+@r"), ("three", "[@r+@r*@r]")):
        rule5 = {"macros": [{"name": "@r", "pattern": "rax"}], "pattern": [{"lea": [text, "rcx"]}]}
        jobs.append({"kind": "compile", "rule": rule5})
        ids.append(("defined-in-body", "several-references-in-one-text:" + tid, "rule", rule5, []))
    # every case once more with the jasm logger at DEBUG level (`--debug`)
    n0 = len(jobs)
    for k in range(n0):
        jobs.append(dict(jobs[k], debug=True))
        pid, order, where, rule, docs = ids[k]
        ids.append((pid, order + ":debug-logging", where, rule, docs))
    res = replay.run_real(jobs)
    viol = []
    for (pid, order, where, rule, docs), r in zip(ids, res):
        if pid == "defined-in-body":
            if "error" not in r and "@" in r.get("regex", ""):
                viol.append({"input": {"rule": rule, "macros_files": docs}, "real": r,
                             "disagreement": f"'@' text survives into the matcher ({pid}, {order})"})
            continue
        if "error" not in r:
            viol.append({"input": {"rule": rule, "macros_files": docs}, "real": r,
                         "disagreement": f"undefined macro reference in position {pid} ({order}, macros in {where}) compiled silently"})
    return {"undefined_macro_sweep": {"cases": len(jobs), "exhaustive": True,
                                      "bound": "one rule per reference position of the quantifier x definition order x rule/extra file"}}, viol


# --------------------------------------------------------------------------- history (C14)
def history_pool() -> List[Dict[str, Any]]:
    L1 = listing_of([("10", "push", ["%rbp"]), ("11", "mov", ["%rsp", "%rbp"]), ("14", "call", ["401020"]), ("19", "pushq", ["%rbx"]), ("1a", "ret", [""])])
    L2 = listing_of([("20", "push", ["%ebp"]), ("21", "movq", ["%rax", "%rbx"]), ("24", "jmp", ["30"]), ("26", "pop", ["%rax"])])
    common = {"macros": [{"name": "@save", "pattern": [{"push": ["@reg"]}]}]}
    pool = [
        {"rule": {"pattern": ["push", "mov"]}, "listing": L1},
        {"rule": {"config": {"mnemonics-full-match": True}, "pattern": ["push"]}, "listing": L1},
        {"rule": {"config": {"operands-full-match": True}, "pattern": [{"mov": ["rax"]}]}, "listing": L2},
        {"rule": {"pattern": [{"mov": ["rax"]}]}, "listing": L2},
        {"rule": {"config": {"valid_addr_range": {"min": "0x401000", "max": "0x401fff"}}, "pattern": [{"call": ["valid_addr"]}]}, "listing": L1},
        {"rule": {"pattern": [{"call": ["valid_addr"]}]}, "listing": L1},
        {"rule": {"config": {"valid_addr_range": {"min": "0x20", "max": "0x40"}}, "pattern": [{"jmp": ["valid_addr"]}]}, "listing": L2},
        {"rule": {"pattern": [{"push": ["&r"]}, {"mov": ["&r"]}]}, "listing": L1},
        {"rule": {"pattern": [{"push": ["&a"]}, {"movq": ["&b", "&c"]}]}, "listing": L2},
        {"rule": {"pattern": ["@save"]}, "listing": L1, "macros_files": [common, {"macros": [{"name": "@reg", "pattern": "%rbp"}]}]},
        {"rule": {"pattern": ["@save"]}, "listing": L2, "macros_files": [common, {"macros": [{"name": "@reg", "pattern": "%ebp"}]}]},
        {"rule": {"macros": [{"name": "@p", "pattern": "pop"}], "pattern": ["@p"]}, "listing": L2},
        {"rule": {"macros": [{"name": "@p", "pattern": "ret"}], "pattern": ["@p"]}, "listing": L1},
        {"rule": {"config": {"sections": [".text"]}, "pattern": ["ret"]}, "listing": L1},
        # `config:` present but empty (None) and an empty mapping: whatever the operation does, it does it in every history
        # a shared parameterised macro whose body refers to a macro that one rule defines and the other does not
        {"rule": {"macros": [{"name": "@scratch", "pattern": "%rax"}], "pattern": [{"@store_to": {"dst": "%rbx"}}]}, "listing": L2,
         "macros_files": [{"macros": [{"name": "@store_to", "args": ["dst"], "pattern": [{"movq": ["@scratch", "dst"]}]}]}]},
        {"rule": {"macros": [{"name": "@other", "pattern": "nop"}], "pattern": [{"@store_to": {"dst": "%rbx"}}]}, "listing": L2,
         "macros_files": [{"macros": [{"name": "@store_to", "args": ["dst"], "pattern": [{"movq": ["@scratch", "dst"]}]}]}]},
        {"rule": {"config": None, "pattern": [{"mov": ["rax"]}]}, "listing": L2},
        {"rule": {"config": {}, "pattern": [{"mov": ["rax"]}]}, "listing": L2},
        # boundary ranges: empty (max below min), one address, from zero
        {"rule": {"config": {"valid_addr_range": {"min": "0x401fff", "max": "0x401000"}}, "pattern": [{"call": ["401020"]}]}, "listing": L1},
        {"rule": {"config": {"valid_addr_range": {"min": "0x30", "max": "30"}}, "pattern": [{"jmp": ["valid_addr"]}]}, "listing": L2},
        {"rule": {"config": {"valid_addr_range": {"min": "0x0", "max": "0x40"}}, "pattern": [{"jmp": ["30"]}]}, "listing": L2},
        # malformed ranges (a missing bound, an unquoted number): whatever the operation does -- an error, most likely -- it does in
        # every history
        {"rule": {"config": {"valid_addr_range": {"min": "0x401000"}}, "pattern": [{"call": ["401020"]}]}, "listing": L1},
        {"rule": {"config": {"valid_addr_range": {"min": 4198400, "max": 4202495}}, "pattern": [{"call": ["valid_addr"]}]}, "listing": L1},
    ]
    modes = [["bool", "first_find", False], ["matched_addrs_list", "all_finds", True]]
    return [dict(p, kind="mop", modes=modes) for p in pool]


def history_sweep(n: int, seed: int) -> Tuple[Dict[str, Any], List[Dict[str, Any]]]:
    pool = history_pool()
    fresh = replay.run_real([p for p in pool])          # one operation per ... (each job is run first in its own temp dir but same process)
    # fresh-process results: one subprocess per operation
    fresh = [replay.run_real(p) for p in pool]
    rnd = random.Random(seed * 13 + 1)
    seqs = [[i, i] for i in range(len(pool))]
    seqs += [[i, j, i] for i in range(len(pool)) for j in range(len(pool)) if i != j][: max(0, n)]
    rnd.shuffle(seqs)
    seqs = seqs[: max(n, len(pool))]
    # always include the neighbours in pool order and a long mixed history
    seqs.append(list(range(len(pool))) + list(range(len(pool))))
    seqs.append(list(reversed(range(len(pool)))) + list(range(len(pool))))
    jobs = [{"kind": "history", "ops": [pool[i] for i in s]} for s in seqs]
    res = replay.run_real(jobs, timeout=1800)
    viol = []
    for s, r in zip(seqs, res):
        for k, i in enumerate(s):
            got = r["ops"][k] if "ops" in r else r
            if got != fresh[i]:
                viol.append({"input": {"history": [pool[j] for j in s[:k + 1]]}, "real": {"in_history": got, "fresh_process": fresh[i]},
                             "disagreement": f"operation #{k} of the history (pool item {i}) differs from the same operation performed first in a fresh process"})
                break
    return {"history_sweep": {"histories": len(seqs), "pool": len(pool),
                              "bound": "histories of 2-3 operations (all repeats, sampled i,j,i) plus two histories over the whole pool, "
                                       "23 operations with differing flags / ranges / captures / macros / sections / empty config"}}, viol


# --------------------------------------------------------------------------- parser (C08, C09, C10, C16)
def parser_lines(rnd: random.Random, n: int) -> List[str]:
    regs = ["%rax", "%rbx", "%ecx", "%r8", "%r9d", "%dl", "%xmm0", "%rsp", "%rbp"]
    lines = []

    def imm():
        return rnd.choice(["$0x0", "$0x10", "$0xffffffffffffff80", "$-0x8" if False else "$0x1"])

    def disp():
        return rnd.choice(["0x8", "-0x8", "0x0", "0x1dc59", "-0x1c"])

    def mem():
        a, b = rnd.choice(regs[:4] + ["%rsp", "%rbp", "%rip"]), rnd.choice(regs[:4])
        c = rnd.choice("1248")
        return rnd.choice([f"{disp()}({a},{b},{c})", f"({a},{b},{c})", f"{disp()}(,{b},{c})", f"{disp()}({a})", f"({a})"])

    def special():
        a, b = rnd.choice(regs[:4]), rnd.choice(regs[:4])
        return rnd.choice([f"%fs:0x28", f"%fs:{disp()}({a},{b},8)", f"%gs:({a},{b},{rnd.choice('1248')})", "%es:(%rdi)", f"*{a}", f"*{disp()}(%rip)",
                           "%st(1)", f"*{disp()}(,{b},8)", "%cs:0x0(%rax,%rax,1)"])

    def oper():
        return rnd.choice([imm, lambda: rnd.choice(regs), mem, mem, mem, special])()
    addr = 0x401000
    for _ in range(n):
        k = rnd.choice([0, 1, 1, 2, 2, 3])
        mn = rnd.choice(["mov", "lea", "add", "push", "pop", "ret", "nop", "imul", "cmp", "test", "xchg"])
        r = rnd.random()
        if r < 0.15:
            tgt = format(rnd.randrange(0x401000, 0x402000), "x")
            ops = tgt
            mn = rnd.choice(["call", "jmp", "jne", "je"])
            annot = f" <sym+0x{rnd.randrange(1, 99):x}>" if rnd.random() < 0.7 else ""
        else:
            ops = ",".join(oper() for _ in range(k))
            annot = ""
        if rnd.random() < 0.12:      # prefixes / pseudo prefixes printed before the mnemonic
            mn = rnd.choice(["lock", "rep", "repz", "data16", "{vex}", "{evex}", "notrack", "bnd", "cs", "addr32", "rex.W"]) + " " + mn
        if rnd.random() < 0.03:      # a lone prefix byte is printed as a one-token instruction
            mn, ops, annot = rnd.choice(["data16", "lock", "rep", "cs", "rex.W", "addr32"]), "", ""
        nb = rnd.randrange(1, 8)
        byt = " ".join(format(rnd.randrange(256), "02x") for _ in range(nb))
        pad = " " * rnd.choice([0, 2, 4])
        comment = rnd.choice(["", "", "        # 4020a0 <x+0x10>"]) if ops and not annot else ""
        text = mn + ((" " * rnd.choice([1, 3, 5]) + ops) if ops else "") + annot + comment
        lines.append(f"{pad}{addr:x}:\t{byt.ljust(20)} \t{text}")
        addr += nb
    return lines


def limit_lines() -> List[Tuple[str, str]]:
    """instruction lines at the limits of the objdump line grammar (deterministic; also part of every parser sweep)"""
    out = []
    for n in (10, 999, 1000, 1001, 1500, 5000):
        out.append((f"annotation-{n}", f"  401100:\te8 fb 0e 00 00       \tcall   402000 <{'S' * n}>"))
        out.append((f"comment-{n}", f"  401105:\t48 8d 05 e2 2f 00 00 \tlea    0x2fe2(%rip),%rax        # 404000 <{'T' * n}+0x10>"))
    out.append(("data16+hint", "       1:\t66 2e 70 05          \tdata16 jo,pn a <f+0xa>"))
    out.append(("data16+hint-pt", "       8:\t66 3e 75 05          \tdata16 jne,pt 11 <f+0x11>"))
    out.append(("hint", "       5:\t2e 70 05             \tjo,pn  d <f+0xd>"))
    out.append(("data16+prefix", "  40110c:\t66 2e 0f 1f 84 00 00 \tdata16 cs nopw 0x0(%rax,%rax,1)"))
    out.append(("data16-twice", "  40110c:\t66 66 2e 0f 1f 84 00 \tdata16 data16 cs nopw 0x0(%rax,%rax,1)"))
    for nb in (1, 7, 8, 9, 10, 15):
        byt = " ".join(["0f"] * nb)
        out.append((f"bytes-{nb}", f"  401120:\t{byt.ljust(20)} \tnopw   0x0(%rax,%rax,1)"))
        out.append((f"bytes-{nb}-noops", f"  401130:\t{byt.ljust(20)} \tret"))
    for a in ("0", "f", "ffffffff81000000", "0ffffffff81000000", "00000000ffffffff81000000"):
        out.append((f"addr-{a}", f"{a}:\t55                   \tpush   %rbp"))
    out.append(("blanks", "        401140:\t48 89 e5             \tmov                %rsp,%rbp"))
    out.append(("long-index", "  401150:\t42 8d 4c f8 10       \tlea    0x10(%eax,%r15d,8),%ecx"))
    out.append(("long-index-w", "  401155:\t66 42 8b 04 50       \tmov    (%rax,%r10w,2),%ax"))
    out.append(("three-mems", "  401160:\tc4 e2 71 92 04 05 00 \tvgatherdps %xmm1,0x0(,%xmm0,1),%xmm0"))
    # older binutils pad the mnemonic to six characters plus a blank even without operands: lines that END in letters / hex
    # digits and one or more blanks
    for mn_, byt_ in (("lfence", "0f ae e8"), ("mfence", "0f ae f0"), ("sfence", "0f ae f8"), ("vmxoff", "0f 01 c4"), ("getsec", "0f 37"),
                      ("fldl2e", "d9 ea"), ("retq", "c3"), ("leaveq", "c9"), ("cltq", "48 98")):
        for tail_ in (" ", "   "):
            out.append((f"trailing-blank-{mn_}-{len(tail_)}", f"  401170:\t{byt_.ljust(20)} \t{mn_}{tail_}"))
    # the same line twice in a row (sections of an object file restart at 0: two one-instruction functions)
    out.append(("dup-1", "   0:\tc3                   \tret"))
    out.append(("dup-2", "   0:\tc3                   \tret"))
    out.append(("dup-3", "   0:\t55                   \tpush   %rbp"))
    out.append(("dup-4", "   0:\t55                   \tpush   %rbp"))
    # segment overrides in front of every memory shape
    for seg_ in ("%fs", "%gs", "%es", "%cs"):
        out.append((f"seg-{seg_}-idx", f"  401180:\t64 48 8b 0c d8       \tmov    {seg_}:(%rax,%rbx,8),%rcx"))
        out.append((f"seg-{seg_}-disp-idx", f"  401185:\t65 48 89 54 c8 10    \tmov    %rdx,{seg_}:0x10(%rax,%rcx,8)"))
        out.append((f"seg-{seg_}-base", f"  40118b:\t26 8b 07             \tmov    {seg_}:(%rdi),%eax"))
        out.append((f"seg-{seg_}-abs", f"  40118e:\t64 48 8b 04 25 28 00 \tmov    {seg_}:0x28,%rax"))
    # 16-bit addressing: base and index without a scale (objdump -M att of addr16 / i8086 code)
    for t16_, b16_ in (("(%bx,%si)", "67 8b 00"), ("0x10(%bp,%di)", "67 8b 43 10"), ("-0x2(%bx,%di)", "67 8b 41 fe"), ("0x10(%bp,%si)", "67 8b 42 10")):
        out.append((f"addr16-{t16_}", f"   1:\t{b16_.ljust(20)} \tmov    {t16_},%eax"))
        out.append((f"addr16-{t16_}-dst", f"   5:\t{b16_.ljust(20)} \tmov    %ax,{t16_}"))
    # x87 mnemonics that objdump prints with a parenthesised remark
    out.append(("fndisi", "  4011a0:\tdb e1                \tfndisi(8087 only)"))
    out.append(("frstpm", "  4011a2:\tdb e5                \tfrstpm(287 only)"))
    # index-only references with every scale
    for sc_ in "1248":
        out.append((f"index-only-{sc_}", f"  401195:\t48 8d 14 85 00 00 00 \tlea    0x0(,%rax,{sc_}),%rdx"))
        out.append((f"index-only-nodisp-{sc_}", f"  40119d:\t48 8d 14 85 00 00 00 \tlea    (,%rbx,{sc_}),%rdx"))
    return out


def other_lines() -> List[Tuple[str, str]]:
    """lines that are NOT instructions, with characters that mean something in a regular expression: they contribute nothing to the
    stream and never make the parser fail (C08, C16)"""
    return [
        ("title-paren", "build(1/main.o:     file format elf64-x86-64"),
        ("title-bracket", "lib[x.so:     file format elf64-x86-64"),
        ("title-star", "*out+.o:     file format elf64-x86-64"),
        ("section-paren", "Disassembly of section .text.f(:"),
        ("section-bracket", "Disassembly of section .text[0:"),
        ("label-paren", "0000000000401000 <operator()(int)>:"),
        ("label-template", "0000000000401000 <std::vector<int, std::allocator<int> >::push_back(int const&)>:"),
        ("elision", "\t..."),
        ("blank", ""),
        ("junk-regex", "(?P<x"),
        ("junk-backslash", "\\"),
    ]


def decorate(rnd: random.Random, lines: List[str]) -> List[str]:
    """presentation edits of C16: labels, blank lines, headers, indentation, byte column, annotations stay semantically inert"""
    out = ["", "prog:     file format elf64-x86-64", "", "", "Disassembly of section .text:", ""]
    others = [l_ for _t, l_ in other_lines()]
    for li, ln in enumerate(lines):
        if li % 40 == 7:
            out.append(others[(li // 40) % len(others)])
        if li == len(lines) // 2:
            # a section header in the middle of the code (the first header of a listing may also be missing: the plain
            # variant of the same lines has none at all)
            out += ["", "Disassembly of section .fini:", ""]
        if rnd.random() < 0.2:
            out += ["", f"{rnd.randrange(1 << 20):016x} <lbl_{rnd.randrange(99)}>:"]
        if rnd.random() < 0.1:
            out.append("\t...")
        head, byt, text = ln.split("\t", 2)
        if rnd.random() < 0.5:
            head = " " * rnd.randrange(0, 6) + head.strip()
        if rnd.random() < 0.5:
            nb = rnd.randrange(1, 13)          # objdump --insn-width changes how many raw bytes one line shows
            byt = " ".join(format(rnd.randrange(256), "02x") for _ in range(nb)).ljust(rnd.choice([20, 21, 24])) + " "
        if rnd.random() < 0.1 and "#" not in text and "<" not in text and re.fullmatch(r"\S+ +\S+", text):
            # an analyst's tab-aligned note behind the operands: a comment is presentation whatever it contains
            text = text + "        # 404010 <counter>\t; note\taligned with tabs"
        out.append("\t".join([head, byt, text]))
        if rnd.random() < 0.1:
            a = head.strip()[:-1]
            out.append(f"{head}\t{format(rnd.randrange(256), '02x')} ")        # byte-continuation line
    return out


def parser_sweep(n: int, seed: int) -> Tuple[Dict[str, Any], List[Dict[str, Any]]]:
    rnd = random.Random(seed * 17 + 11)
    lines = parser_lines(rnd, n) + [ln for _t, ln in limit_lines()]
    dec = decorate(random.Random(seed + 1), lines)
    # third job: the decorated listing under a rule whose config sets every entry that must not influence the stream
    cfg = {"style": "intel", "mnemonics-full-match": True, "operands-full-match": True, "sections": [".text"]}
    # fourth job: the decorated listing without its FIRST section header (a later one stays): headers are presentation
    dec_nofirst = [l_ for l_ in dec if l_ != "Disassembly of section .text:"]
    # fifth job: the decorated listing under a rule with a valid_addr_range that no target of the listing lies in: the observers
    # installed for the range leave every other instruction -- and the removal of byte-continuation lines -- as they are
    far = "fedcba9876543210"
    cfg_range = {"valid_addr_range": {"min": "0x" + far, "max": "0x" + far}}
    jobs = [{"kind": "parse", "lines": lines, "stream": True}, {"kind": "parse", "lines": dec, "stream": True},
            {"kind": "parse", "lines": dec, "stream": True, "config": cfg}, {"kind": "parse", "lines": dec_nofirst, "stream": True}]
    if not any(far in l_ for l_ in dec):
        jobs.append({"kind": "parse", "lines": dec, "stream": True, "config": cfg_range})
    res = replay.run_real(jobs, timeout=1800)
    viol = []
    a, b, b_cfg, b_nf = res[:4]
    if len(res) > 4 and b.get("stream", {}).get("result") == a.get("stream", {}).get("result") \
            and res[4].get("stream", {}).get("result") != a.get("stream", {}).get("result"):
        # (only when the decorated listing gives the plain stream WITHOUT the range: otherwise the presentation edit itself is the cause)
        sa_, sr_ = a.get("stream", {}).get("result") or "", res[4].get("stream", {}).get("result") or ""
        ra, rr = sa_.split("|"), sr_.split("|")
        k = 0
        while k < min(len(ra), len(rr)) and ra[k] == rr[k]:
            k += 1
        viol.append({"input": {"config": cfg_range, "plain": lines[:40], "decorated": dec[:80]},
                     "real": {"default_config_record": ra[k] if k < len(ra) else None, "with_range_record": rr[k] if k < len(rr) else None,
                              "error": res[4].get("stream", {}).get("error") or res[4].get("error")},
                     "disagreement": "with a valid_addr_range that contains no target of the listing, the instruction stream of the decorated listing "
                                     "differs from the stream of the plain one (byte-continuation lines / other instructions are affected by the range observer)"})
    if b_nf.get("stream", {}).get("result") != a.get("stream", {}).get("result"):
        viol.append({"input": {"plain": lines[:40], "decorated": dec_nofirst[:80]},
                     "real": {"plain": (a.get("stream", {}).get("result") or "")[:400], "decorated": (b_nf.get("stream", {}).get("result") or "")[:400]},
                     "disagreement": "the instruction stream changes when the first section header is removed and a later one stays "
                                     "(section headers are presentation: they never decide which instructions exist)"})
    sc = b_cfg.get("stream", {}).get("result")
    if sc != a.get("stream", {}).get("result"):
        k = 0
        sa_ = a.get("stream", {}).get("result") or ""
        ra, rc = sa_.split("|"), (sc or "").split("|")
        while k < min(len(ra), len(rc)) and ra[k] == rc[k]:
            k += 1
        viol.append({"input": {"config": cfg, "plain": lines[max(0, k - 1):k + 2], "decorated": dec[:60]},
                     "real": {"default_config_record": ra[k] if k < len(ra) else None, "with_config_record": rc[k] if k < len(rc) else None},
                     "disagreement": "the instruction stream of a listing changes with the rule's style / full-match / sections entries "
                                     "(the stream is a function of the listing; sections and style only select what objdump is asked for)"})
    for ln, r in zip(lines, a["lines"]):
        exp = OM.decode_line(ln)
        got = tuple(r["inst"]) if "inst" in r else None
        if "error" in r:
            viol.append({"input": {"line": ln}, "real": r, "disagreement": "the parser raised on an objdump line"})
        elif exp is not None and (got is None or [got[0], got[1], list(got[2])] != [exp[0], exp[1], exp[2]]):
            viol.append({"input": {"line": ln}, "real": r, "expected": exp, "disagreement": "instruction line not decoded to (address, mnemonic, normal-form operands)"})
    sa, sb = a.get("stream", {}).get("result"), b.get("stream", {}).get("result")
    if sa != sb:
        viol.append({"input": {"plain": lines[:40], "decorated": dec[:60]}, "real": {"plain": (sa or "")[:400], "decorated": (sb or "")[:400]},
                     "disagreement": "the instruction stream changes under presentation edits (labels, blank lines, header, indentation, byte column)"})
    # C10: the instruction list can be recovered from the stream
    exp_list = [OM.decode_line(l) for l in lines if OM.decode_line(l)]
    if sa is not None:
        dec_back = replay.parse_stream(sa)
        want = [(a, m, (o if o else [""])) for (a, m, o) in exp_list]
        if dec_back is None or [(a, m, list(f)) for (a, m, f) in dec_back] != want:
            k = 0
            if dec_back is not None:
                while k < min(len(dec_back), len(want)) and (dec_back[k][0], dec_back[k][1], list(dec_back[k][2])) == want[k]:
                    k += 1
            viol.append({"input": {"line": lines[k] if k < len(lines) else None, "lines": lines[max(0, k - 1):k + 2]},
                         "real": {"stream_record": (sa.split("|")[k] if k < sa.count("|") else None)}, "expected": list(want[k]) if k < len(want) else None,
                         "disagreement": "the instruction list cannot be recovered from the stream (a separator occurs inside a field)"})
    exp_stream = OR.stream_of(OR.records_from_instructions(exp_list))
    if sa is not None and sa != exp_stream:
        viol.append({"input": {"lines": lines[:40]}, "real": {"stream": sa[:400]}, "expected": exp_stream[:400],
                     "disagreement": "stream is not the encoding addr::mnemonic,operand,...,| of the decoded instruction list"})
    return {"parser_sweep": {"lines": len(lines), "decorated_lines": len(dec),
                             "bound": "seeded random instruction lines over the operand forms of C09 + presentation edits of C16"}}, viol[:10]


# --------------------------------------------------------------------------- valid_addr_range (C18)
def validaddr_sweep(n: int, seed: int) -> Tuple[Dict[str, Any], List[Dict[str, Any]]]:
    rnd = random.Random(seed * 101 + 7)
    jobs, exps, inputs = [], [], []
    for it in range(max(6, n // 10)):
        lo = rnd.choice([0x10, 0x401000, 0x1000, 0xfff0])
        hi = lo + rnd.choice([0, 1, 0x10, 0xfff, 0x100000])
        if it < 2:                      # the range that starts at address 0 (unlinked objects), both spellings of zero
            lo, hi = 0, (0x1000, 0)[it]
        spell = lambda v: rnd.choice([format(v, "x"), "0x" + format(v, "x"), "0x000" + format(v, "x")])
        cfg = {"valid_addr_range": {"min": spell(lo), "max": spell(hi)}}
        targets = [t for t in [lo - 1, lo, (lo + hi) // 2, hi, hi + 1, 3, 0, 0x7fffffffffff] if t >= 0]
        recs, expect = [], []
        a = 0x500000
        for t in targets:
            for mn in ("call", "jmp"):
                recs.append((format(a, "x"), mn, [format(t, "x")]))
                expect.append(lo <= t <= hi)
                a += 5
        recs.append((format(a, "x"), "call", ["*%rax"])); expect.append(False); a += 2
        recs.append((format(a, "x"), "jmp", ["*0x8(%rip)"])); expect.append(False); a += 6
        recs.append((format(a, "x"), "mov", [format(lo, "x"), "%rax"])); expect.append(False); a += 3
        # one-operand non-branches whose immediate happens to lie in the range: an immediate is not a branch target
        recs.append((format(a, "x"), "push", ["$0x" + format((lo + hi) // 2, "x")])); expect.append(False); a += 5
        recs.append((format(a, "x"), "int", ["$0x" + format(lo, "x")])); expect.append(False); a += 2
        lines = ["", "x:     file format elf64-x86-64", "", "Disassembly of section .text:", "", "0000000000500000 <f>:"]
        for (ad, mn, ops) in recs:
            sym = " <f+0x10>" if mn in ("call", "jmp") and not ops[0].startswith("*") else ""
            optxt = ops[0] if len(ops) == 1 else ",".join(["$0x" + ops[0], ops[1]])      # "$0x.." operands are written as they are
            lines.append(f"  {ad}:\te8 00 00 00 00       \t{mn}   {optxt}{sym}")
            if mn == "mov":
                # a long encoding continues on a bytes-only line: it is not an instruction and adds nothing to the stream
                lines.append(f"  {format(int(ad, 16) + 7, 'x')}:\t00 00 00 ")
        listing = "\n".join(lines) + "\n"
        for mn in ("call", "jmp"):
            rule = {"config": cfg, "pattern": [{mn: ["valid_addr"]}]}
            jobs.append({"kind": "mop", "rule": rule, "listing": listing,
                         "modes": [["matched_addrs_list", "all_finds", True], ["all_instructions_string", "first_find", False]]})
            exps.append([ad for (ad, m, _o), e in zip(recs, expect) if e and m == mn])
            inputs.append((rule, listing, recs, expect))
        # without the option nothing is rewritten
        jobs.append({"kind": "mop", "rule": {"pattern": [{"call": ["valid_addr"]}]}, "listing": listing,
                     "modes": [["matched_addrs_list", "all_finds", True], ["all_instructions_string", "first_find", False]]})
        exps.append([])
        inputs.append(({"pattern": [{"call": ["valid_addr"]}]}, listing, recs, [False] * len(recs)))
    res = replay.run_real(jobs)
    viol = []
    for r, exp, (rule, listing, recs, expect) in zip(res, exps, inputs):
        got = r["results"][0].get("result")
        stream = r["results"][1].get("result")
        if got != exp:
            viol.append({"input": {"rule": rule, "listing": listing}, "real": {"matched": got}, "expected": exp,
                         "disagreement": "the direct calls/jumps matched by valid_addr are not exactly those whose target lies in [min,max]"})
            continue
        tagged = ["valid_addr" in rec for rec in (stream or "").split("|")[:-1]]
        want_tag = [bool(e) for e in expect] if "config" in rule else [False] * len(recs)
        if stream is not None and (len(tagged) != len(recs) or tagged != want_tag):
            viol.append({"input": {"rule": rule, "listing": listing}, "real": {"stream": stream[:600]}, "expected_tagged": want_tag,
                         "disagreement": "instructions tagged valid_addr in the stream differ from the in-range direct branches (or the instruction count changed)"})
    return {"validaddr_sweep": {"cases": len(jobs), "bound": "ranges with targets at min-1, min, mid, max, max+1, tiny, huge; 0x / zero-padded spellings; "
                                "indirect branches and a non-branch"}}, viol


# --------------------------------------------------------------------------- CLI = library (C20)
def cli_sweep(n: int, seed: int) -> Tuple[Dict[str, Any], List[Dict[str, Any]]]:
    import tempfile
    import yaml
    L = listing_of([("401000", "push", ["%rbp"]), ("401001", "mov", ["%rsp", "%rbp"]), ("401004", "push", ["%rbx"]), ("401005", "mov", ["%rdi", "%rbx"]),
                    ("401008", "ret", [""])])
    cases = [
        ({"pattern": ["push", "mov"]}, []),
        ({"pattern": ["nosuchthing"]}, []),
        ({"pattern": ["@save", {"mov": ["%rsp", "@reg"]}]}, [{"macros": [{"name": "@save", "pattern": [{"push": ["@reg"]}]}]}, {"macros": [{"name": "@reg", "pattern": "%rbp"}]}]),
        ({"pattern": ["@b_item", "@a_item"]}, [{"macros": [{"name": "@b_item", "pattern": "push"}]}, {"macros": [{"name": "@a_item", "pattern": "mov"}]}]),
    ]
    # an object file's listing restarts at address 0 in every section: consecutive matches may carry the same address (and the same text)
    L_REPEAT = ("\nx.o:     file format elf64-x86-64\n\n\nDisassembly of section .text:\n\n0000000000000000 <f>:\n"
                "   0:\t55                   \tpush   %rbp\n   1:\tc3                   \tret\n\nDisassembly of section .text.startup:\n\n"
                "0000000000000000 <g>:\n   0:\t55                   \tpush   %rbp\n   1:\t53                   \tpush   %rbx\n   2:\tc3                   \tret\n")
    cases = [c + (L,) for c in cases] + [({"pattern": ["push"]}, [], L_REPEAT), ({"pattern": ["ret"]}, [], L_REPEAT)]
    viol = []
    runs = 0
    py = "/venv/bin/python"
    env = dict(os.environ)
    env["PYTHONPATH"] = os.path.join(replay.repo(), "src")
    with tempfile.TemporaryDirectory() as t:
        for ci, (rule, docs, L_case) in enumerate(cases):
            lp = os.path.join(t, f"in{ci}.s")
            open(lp, "w").write(L_case)
            rp = os.path.join(t, f"r{ci}.yaml")
            yaml.safe_dump(rule, open(rp, "w"), sort_keys=False)
            # file names chosen so that the given order is NOT the sorted order
            mps = []
            for k, d in enumerate(docs):
                mp = os.path.join(t, f"{'zy'[k] if k < 2 else 'a'}_macros{ci}.yaml")
                yaml.safe_dump(d, open(mp, "w"), sort_keys=False)
                mps.append(mp)
            for allm, only, dbg in [(a_, o_, False) for a_ in (False, True) for o_ in (False, True)] + [(True, False, True), (False, True, True)]:
                if True:
                    argv = [py, "-m", "jasm.main", "-p", rp, "-s", lp] + (["--all-matches"] if allm else []) + \
                           (["--return_only_address"] if only else []) + (["--debug"] if dbg else []) + (["--macros"] + mps if mps else [])
                    p = subprocess.run(argv, capture_output=True, text=True, env=env, cwd=t)
                    runs += 1
                    out = p.stderr + p.stdout
                    addrs = [ln.split("Matched address: ", 1)[1] for ln in out.split("\n") if "Matched address: " in ln]
                    found = "RESULT: Pattern found" in out
                    api = replay.run_real({"kind": "mop", "rule": rule, "listing": L_case, "macros_files": docs,
                                           "modes": [["bool", "all_finds" if allm else "first_find", only],
                                                     ["matched_addrs_list", "all_finds" if allm else "first_find", only]]})
                    rb, rl = api["results"][0], api["results"][1]
                    if "error" in rb:
                        if p.returncode == 0:
                            viol.append({"input": {"argv": argv[3:], "rule": rule, "macros_files": docs}, "real": {"exit": p.returncode, "output": out[-400:]},
                                         "disagreement": f"the API raises ({rb['error']}) but the command exits with status 0"})
                        continue
                    if p.returncode != 0 or found != rb["result"] or addrs != rl["result"]:
                        viol.append({"input": {"argv": argv[3:], "rule": rule, "macros_files": docs, "listing": L_case},
                                     "real": {"exit": p.returncode, "cli_found": found, "cli_addresses": addrs, "api_bool": rb["result"], "api_list": rl["result"]},
                                     "disagreement": "the jasm command does not report the verdict / matched addresses the API computes"})
        # RELATIVE paths are relative to the working directory, for every option (the API opens the paths it is given): the rule lives in
        # another directory than the cwd, and a same-named decoy of the macros file / of the listing lies beside the rule
        work, rules = os.path.join(t, "work"), os.path.join(t, "rules")
        os.makedirs(work, exist_ok=True)
        os.makedirs(rules, exist_ok=True)
        rel_rule = {"pattern": ["@target"]}
        good_doc, decoy_doc = {"macros": [{"name": "@target", "pattern": "push"}]}, {"macros": [{"name": "@target", "pattern": "nosuchthing"}]}
        yaml.safe_dump(rel_rule, open(os.path.join(rules, "rule.yaml"), "w"), sort_keys=False)
        yaml.safe_dump(good_doc, open(os.path.join(work, "extra.yaml"), "w"), sort_keys=False)
        yaml.safe_dump(decoy_doc, open(os.path.join(rules, "extra.yaml"), "w"), sort_keys=False)
        open(os.path.join(work, "in.s"), "w").write(L)
        open(os.path.join(rules, "in.s"), "w").write(listing_of([("401000", "ret", [""])]))
        for allm, only in ((False, False), (True, True)):
            argv = [py, "-m", "jasm.main", "-p", os.path.join("..", "rules", "rule.yaml"), "-s", "in.s", "--macros", "extra.yaml"] + \
                   (["--all-matches"] if allm else []) + (["--return_only_address"] if only else [])
            p = subprocess.run(argv, capture_output=True, text=True, env=env, cwd=work)
            runs += 1
            out = p.stderr + p.stdout
            addrs = [ln.split("Matched address: ", 1)[1] for ln in out.split("\n") if "Matched address: " in ln]
            found = "RESULT: Pattern found" in out
            api = replay.run_real({"kind": "mop", "rule": rel_rule, "listing": L, "macros_files": [good_doc],
                                   "modes": [["bool", "all_finds" if allm else "first_find", only],
                                             ["matched_addrs_list", "all_finds" if allm else "first_find", only]]})
            rb, rl = api["results"][0], api["results"][1]
            if "error" in rb or p.returncode != 0 or found != rb["result"] or addrs != rl["result"]:
                viol.append({"input": {"argv": argv[3:], "cwd": "work/", "rule": rel_rule, "macros_files": [good_doc], "listing": L,
                                       "decoys": "rules/extra.yaml defines @target as nosuchthing; rules/in.s holds one ret"},
                             "real": {"exit": p.returncode, "cli_found": found, "cli_addresses": addrs, "api": [rb, rl]},
                             "disagreement": "the jasm command does not report the verdict / matched addresses the API computes "
                                             "(relative paths: the command read other files than the ones named relative to the working directory)"})
        # required arguments
        for argv, what in (([py, "-m", "jasm.main", "-s", lp], "without -p"), ([py, "-m", "jasm.main", "-p", rp], "without -s/-b"),
                           ([py, "-m", "jasm.main", "-p", rp, "-s", lp, "-b", lp], "with both -s and -b"),
                           ([py, "-m", "jasm.main", "-p", os.path.join(t, "missing.yaml"), "-s", lp], "with a missing pattern file")):
            p = subprocess.run(argv, capture_output=True, text=True, env=env, cwd=t)
            runs += 1
            if p.returncode == 0:
                viol.append({"input": {"argv": argv[3:]}, "real": {"exit": 0}, "disagreement": f"the command {what} exits with status 0"})
        # operations that fail: the exit status is non-zero whatever kind of error it is
        bad_rule = os.path.join(t, "bad.yaml")
        open(bad_rule, "w").write("pattern:\n  - $not: []\n")
        garbage = os.path.join(t, "garbage.bin")
        open(garbage, "wb").write(b"not an object file\n")
        empty_path = os.path.join(t, "nopath")
        os.makedirs(empty_path, exist_ok=True)
        env_nopath = dict(env, PATH=empty_path)
        for argv, what, e in (([py, "-m", "jasm.main", "-p", rp, "-s", os.path.join(t, "missing.s")], "with a missing listing", env),
                              ([py, "-m", "jasm.main", "-p", bad_rule, "-s", lp], "with a rule whose $not has no argument", env),
                              ([py, "-m", "jasm.main", "-p", rp, "-b", garbage], "with a binary objdump rejects", env),
                              ([py, "-m", "jasm.main", "-p", rp, "-b", garbage], "with -b and no objdump on PATH", env_nopath),
                              ([py, "-m", "jasm.main", "-p", rp, "-s", lp, "--macros", os.path.join(t, "nomacros.yaml")], "with a missing macros file", env)):
            p = subprocess.run(argv, capture_output=True, text=True, env=e, cwd=t)
            runs += 1
            if p.returncode == 0:
                viol.append({"input": {"argv": argv[3:], "PATH": e.get("PATH")}, "real": {"exit": 0, "output": (p.stderr + p.stdout)[-300:]},
                             "disagreement": f"the command {what} exits with status 0 although the operation failed"})
    return {"cli_sweep": {"runs": runs, "bound": "6 rules (two on a listing whose sections restart at address 0) x 6 option combinations through `python -m jasm.main` in a scratch directory, "
                          "macro files given in non-sorted order, plus 2 runs with relative paths and same-named decoys beside the rule, 4 malformed command lines and 5 failing operations"}}, viol


def cli_smoke() -> Tuple[Dict[str, Any], List[Dict[str, Any]]]:
    """a handful of real `python -m jasm.main` runs in ONE scratch directory (the second run finds the files the first one left),
    compared with the API: what every change is run against (quick tier of C20)"""
    import tempfile
    import yaml
    L = listing_of([("401000", "push", ["%rbp"]), ("401001", "mov", ["%rsp", "%rbp"]), ("401004", "pop", ["%rbp"]), ("401005", "push", ["%rbp"]),
                    ("401006", "mov", ["%rsp", "%rbp"]), ("401009", "ret", [""])])
    rule = {"pattern": ["push", {"mov": ["%rsp"]}]}
    viol = []
    runs = 0
    py = "/venv/bin/python"
    env = dict(os.environ)
    env["PYTHONPATH"] = os.path.join(replay.repo(), "src")
    with tempfile.TemporaryDirectory() as t:
        lp, rp = os.path.join(t, "in.s"), os.path.join(t, "r.yaml")
        open(lp, "w").write(L)
        yaml.safe_dump(rule, open(rp, "w"), sort_keys=False)
        combos = [(True, True), (True, True), (False, False), (True, False)]
        jobs = [{"kind": "mop", "rule": rule, "listing": L, "modes": [["bool", "all_finds" if a_ else "first_find", o_],
                                                                    ["matched_addrs_list", "all_finds" if a_ else "first_find", o_]]} for a_, o_ in combos]
        apis = replay.run_real(jobs)
        for (allm, only), api in zip(combos, apis):
            argv = [py, "-m", "jasm.main", "-p", rp, "-s", lp] + (["--all-matches"] if allm else []) + (["--return_only_address"] if only else [])
            p = subprocess.run(argv, capture_output=True, text=True, env=env, cwd=t)
            runs += 1
            out = p.stderr + p.stdout
            addrs = [ln.split("Matched address: ", 1)[1] for ln in out.split("\n") if "Matched address: " in ln]
            found = "RESULT: Pattern found" in out
            rb, rl = api["results"][0], api["results"][1]
            if "error" in rb or "error" in rl:
                continue
            if p.returncode != 0 or found != rb["result"] or addrs != rl["result"]:
                viol.append({"input": {"argv": argv[3:], "rule": rule, "macros_files": [], "listing": L},
                             "real": {"exit": p.returncode, "cli_found": found, "cli_addresses": addrs, "api_bool": rb["result"], "api_list": rl["result"],
                                      "output_tail": out[-300:]},
                             "disagreement": "the jasm command does not report the verdict / matched addresses the API computes"})
        # binary mode through the command (when the tree ships a binary and objdump is there)
        binp = os.path.join(replay.repo(), "tests", "binary", "smc.bin")
        import shutil
        if os.path.exists(binp) and shutil.which("objdump"):
            brule = {"pattern": ["ret"]}
            brp = os.path.join(t, "rb.yaml")
            yaml.safe_dump(brule, open(brp, "w"), sort_keys=False)
            api = replay.run_real({"kind": "mop", "rule": brule, "binary_path": binp, "modes": [["bool", "first_find", True], ["matched_addrs_list", "first_find", True]]})
            p = subprocess.run([py, "-m", "jasm.main", "-p", brp, "-b", binp, "--return_only_address"], capture_output=True, text=True, env=env, cwd=t)
            runs += 1
            out = p.stderr + p.stdout
            addrs = [ln.split("Matched address: ", 1)[1] for ln in out.split("\n") if "Matched address: " in ln]
            rb, rl = api["results"][0], api["results"][1]
            if "error" not in rb and (p.returncode != 0 or ("RESULT: Pattern found" in out) != rb["result"] or addrs != rl["result"]):
                viol.append({"input": {"argv": ["-p", "rule", "-b", binp, "--return_only_address"], "rule": brule, "binary": binp},
                             "real": {"exit": p.returncode, "cli_addresses": addrs, "api_bool": rb["result"], "api_list": rl["result"], "output_tail": out[-300:]},
                             "disagreement": "the jasm command in binary mode does not report the verdict / matched addresses the API computes"})
        # RELATIVE paths are relative to the working directory, for every option (the API opens the paths it is given): the rule lives in
        # another directory than the cwd, and a same-named decoy of the macros file / of the listing lies beside the rule
        work, rules = os.path.join(t, "work"), os.path.join(t, "rules")
        os.makedirs(work, exist_ok=True)
        os.makedirs(rules, exist_ok=True)
        rel_rule = {"pattern": ["@target"]}
        good_doc, decoy_doc = {"macros": [{"name": "@target", "pattern": "push"}]}, {"macros": [{"name": "@target", "pattern": "nosuchthing"}]}
        yaml.safe_dump(rel_rule, open(os.path.join(rules, "rule.yaml"), "w"), sort_keys=False)
        yaml.safe_dump(good_doc, open(os.path.join(work, "extra.yaml"), "w"), sort_keys=False)
        yaml.safe_dump(decoy_doc, open(os.path.join(rules, "extra.yaml"), "w"), sort_keys=False)
        open(os.path.join(work, "in.s"), "w").write(L)
        open(os.path.join(rules, "in.s"), "w").write(listing_of([("401000", "ret", [""])]))
        for allm, only in ((False, False), (True, True)):
            argv = [py, "-m", "jasm.main", "-p", os.path.join("..", "rules", "rule.yaml"), "-s", "in.s", "--macros", "extra.yaml"] + \
                   (["--all-matches"] if allm else []) + (["--return_only_address"] if only else [])
            p = subprocess.run(argv, capture_output=True, text=True, env=env, cwd=work)
            runs += 1
            out = p.stderr + p.stdout
            addrs = [ln.split("Matched address: ", 1)[1] for ln in out.split("\n") if "Matched address: " in ln]
            found = "RESULT: Pattern found" in out
            api = replay.run_real({"kind": "mop", "rule": rel_rule, "listing": L, "macros_files": [good_doc],
                                   "modes": [["bool", "all_finds" if allm else "first_find", only],
                                             ["matched_addrs_list", "all_finds" if allm else "first_find", only]]})
            rb, rl = api["results"][0], api["results"][1]
            if "error" in rb or p.returncode != 0 or found != rb["result"] or addrs != rl["result"]:
                viol.append({"input": {"argv": argv[3:], "cwd": "work/", "rule": rel_rule, "macros_files": [good_doc], "listing": L,
                                       "decoys": "rules/extra.yaml defines @target as nosuchthing; rules/in.s holds one ret"},
                             "real": {"exit": p.returncode, "cli_found": found, "cli_addresses": addrs, "api": [rb, rl]},
                             "disagreement": "the jasm command does not report the verdict / matched addresses the API computes "
                                             "(relative paths: the command read other files than the ones named relative to the working directory)"})
        # required arguments
        for argv, what in (([py, "-m", "jasm.main", "-s", lp], "without -p"), ([py, "-m", "jasm.main", "-p", rp], "without -s/-b"),
                           ([py, "-m", "jasm.main", "-p", rp, "-s", lp, "-b", lp], "with both -s and -b"),
                           ([py, "-m", "jasm.main", "-p", rp, "-s", os.path.join(t, "missing.s")], "with a missing listing")):
            p = subprocess.run(argv, capture_output=True, text=True, env=env, cwd=t)
            runs += 1
            if p.returncode == 0:
                viol.append({"input": {"argv": argv[3:]}, "real": {"exit": 0}, "disagreement": f"the command {what} exits with status 0"})
    return {"cli_smoke": {"runs": runs, "bound": "one rule x 4 option combinations (one repeated) in one scratch directory, one binary-mode run, "
                          "4 failing command lines, through `python -m jasm.main`"}}, viol


# --------------------------------------------------------------------------- binary route = objdump text route (C15)
def binary_sweep(n: int, seed: int) -> Tuple[Dict[str, Any], List[Dict[str, Any]]]:
    import tempfile
    src = (".section .text.alpha,\"ax\"\n xor %eax,%eax\n ret\n.section .text.beta,\"ax\"\n push %rbp\n mov %rsp,%rbp\n pop %rbp\n ret\n"
           ".section .text.gamma,\"ax\"\n sub $0x8,%rsp\n push %rbx\n add $0x8,%rsp\n ret\n.text\n nop\n ret\n"
           ".section hotcode,\"ax\"\n xor %ebx,%ebx\n push %rbx\n ret\n")       # section names need not begin with a dot
    viol = []
    with tempfile.TemporaryDirectory() as t:
        sp, op = os.path.join(t, "a.s"), os.path.join(t, "a.o")
        open(sp, "w").write(src)
        if subprocess.run(["as", sp, "-o", op], capture_output=True).returncode != 0:
            return {"binary_sweep": {"skipped": "assembler not available"}}, []
        seclists = [None, [".text.alpha"], [".text.beta"], [".text.gamma"], [".text.beta", ".text.gamma"], [".text"], [".text.alpha"], None,
                    [".text.gamma", ".text.alpha"], ["hotcode"], [".text", "hotcode"]]
        pats = [["xor"], ["push"], ["sub"], ["ret"]]
        # (sections, pattern, other config entries, extra macro files): sections together with the other features of a rule
        MF = [{"macros": [{"name": "@r", "pattern": "ret"}, {"name": "@p", "pattern": "push"}]}]
        descr = [(secs, pats[k % len(pats)], {}, None) for k, secs in enumerate(seclists)]
        descr += [([".text.beta"], ["push"], {"valid_addr_range": {"min": "0x0", "max": "0x2"}}, None),
                  ([".text.gamma"], ["@p"], {}, MF),
                  (None, ["ret"], {"valid_addr_range": {"min": "0x1", "max": "0x1"}, "mnemonics-full-match": True}, None),
                  ([".text.gamma", ".text"], ["@r"], {"operands-full-match": True}, MF),
                  (["hotcode"], ["xor"], {"style": "att"}, MF)]
        ops_bin, ops_txt = [], []
        for k, (secs, pat, other, mfiles) in enumerate(descr):
            rule: Dict[str, Any] = {"pattern": pat}
            if secs is not None or other:
                rule["config"] = dict(other)
                if secs is not None:
                    rule["config"]["sections"] = secs
            argv = ["objdump", "-d", "-M", "att"] + [x for s_ in (secs or []) for x in ("-j", s_)] + [op]
            txt = subprocess.run(argv, capture_output=True, text=True).stdout
            modes = [["bool", "first_find", False], ["matched_addrs_list", "all_finds", True], ["all_instructions_string", "first_find", False]]
            extra = {"macros_files": mfiles} if mfiles else {}
            ops_bin.append(dict({"kind": "mop", "rule": rule, "binary_path": op, "modes": modes}, **extra))
            ops_txt.append(dict({"kind": "mop", "rule": rule, "listing": txt, "modes": modes}, **extra))
        rb = replay.run_real({"kind": "history", "ops": ops_bin})
        rt_ = replay.run_real({"kind": "history", "ops": ops_txt})
        for k, (a, b) in enumerate(zip(rb["ops"], rt_["ops"])):
            if a != b:
                viol.append({"input": {"assembly_source": src, "operations": [{"rule": o_["rule"], "macros_files": o_.get("macros_files")} for o_ in ops_bin[:k + 1]]},
                             "real": {"binary_route": a, "objdump_text_route": b},
                             "disagreement": f"operation #{k} (sections {descr[k][0]}): matching the binary differs from matching the text of objdump -d -M att"})
                break
    return {"binary_sweep": {"operations": len(descr), "bound": "one object with 5 code sections (one named without a leading dot), 16 operations with differing section lists "
                             "(5 of them with a valid_addr_range / full-match flags / extra macro files as well) in one process, binary route vs the harness's own objdump text"}}, viol


# --------------------------------------------------------------------------- assumed-contract conformance (thorough tier)
G_LINE = None


def g_classify(line: str) -> Optional[str]:
    """membership of a line in the assumed objdump grammar G (appendix B of DESIGN.md); None = outside G"""
    import re
    global G_LINE
    if G_LINE is None:
        H = "[0-9a-f]"
        G_LINE = [
            ("insn", re.compile(rf"^ *{H}+:\t(?:{H}{{2}} )+ *\t(?:(?:lock|rep|repz|repnz|data16|addr32|notrack|bnd|cs|ds|es|fs|gs|ss|rex(?:\.[WRXB]+)?|\{{[a-z0-9]+\}}) )*"
                                rf"(?:[a-z][a-z0-9.]*(?:,p[nt])?|\(bad\))(?: +[^ #\t]+)?(?: +<[^>]*>)?(?: *#.*)? *$")),
            ("cont", re.compile(rf"^ *{H}+:\t(?:{H}{{2}} )*{H}{{2}} ?$")),
            ("label", re.compile(rf"^{H}+ <.*>:$")),
            ("section", re.compile(r"^Disassembly of section .*:$")),
            ("blank", re.compile(r"^$")),
            ("elision", re.compile(r"^\t\.\.\.$")),
            ("header", re.compile(r"^.*file format.*$")),
        ]
    for k, r in G_LINE:
        if r.match(line):
            return k
    return None


def objdump_conformance(max_lines: int, seed: int) -> Tuple[Dict[str, Any], List[Dict[str, Any]]]:
    """A-objdump: what objdump -d -M att really prints for the repository's test binaries lies in G, and the real
    parser decodes every instruction line as the independent model does"""
    import glob
    bins = sorted(glob.glob(os.path.join(replay.repo(), "tests", "binary", "*")))
    viol, outside, total, insn = [], [], 0, 0
    rnd = random.Random(seed)
    for b in bins:
        p = subprocess.run(["objdump", "-d", "-M", "att", b], capture_output=True, text=True)
        if p.returncode != 0:
            continue
        lines = p.stdout.split("\n")
        if len(lines) > max_lines:
            start = rnd.randrange(0, len(lines) - max_lines)
            lines = lines[:50] + lines[start:start + max_lines]
        total += len(lines)
        for ln in lines:
            if g_classify(ln) is None and len(outside) < 20:
                outside.append(ln)
        res = replay.run_real({"kind": "parse", "lines": lines}, timeout=1800)
        for ln, r in zip(lines, res["lines"]):
            exp = OM.decode_line(ln)
            if exp is not None:
                insn += 1
            if "error" in r:
                viol.append({"input": {"line": ln, "binary": os.path.basename(b)}, "real": r, "disagreement": "the parser raised on a line printed by objdump"})
            elif exp is not None and r.get("inst") != [exp[0], exp[1], exp[2]]:
                viol.append({"input": {"line": ln, "binary": os.path.basename(b)}, "real": r, "expected": list(exp),
                             "disagreement": "an instruction line printed by objdump is not decoded to (address, mnemonic, normal-form operands)"})
            elif exp is None and "inst" in r and r["inst"][1] != "empty":
                viol.append({"input": {"line": ln, "binary": os.path.basename(b)}, "real": r, "disagreement": "a non-instruction line yields an instruction"})
    return {"objdump_conformance": {"binaries": len(bins), "lines": total, "instruction_lines": insn, "lines_outside_G": outside[:10],
                                    "bound": f"objdump -d -M att of tests/binary/*, up to {max_lines} consecutive lines per binary (seeded offset)"}}, viol[:10]


def instrumentation_identity() -> Tuple[Dict[str, Any], List[Dict[str, Any]]]:
    """T1-T4 are the identity on concrete data: the repository's own tests pass on the instrumented modules"""
    code = ("import sys; sys.path.insert(0, %r); import vf.instrument as I; I.install(); import pytest; "
            "rc = pytest.main(['-q','-p','no:cacheprovider','--timeout=900']); "
            "import vf.rt as rt; print('RTCOUNTS', rt.COUNTS)") % ROOT
    p = subprocess.run([sys.executable, "-c", code], capture_output=True, text=True, cwd=replay.repo(),
                       env=dict(os.environ, JASM_REPO=replay.repo(), PYTHONDONTWRITEBYTECODE="1"))
    tail = [ln for ln in p.stdout.split("\n") if "passed" in ln or "RTCOUNTS" in ln]
    ok = any("129 passed" in ln for ln in tail)
    viol = [] if ok else [{"input": {"command": "pytest on the instrumented modules"}, "real": {"output": p.stdout[-800:]},
                           "disagreement": "the repository's tests do not pass on the T1-T4 instrumented modules (the rewrites are not the identity)"}]
    return {"instrumentation_identity": {"result": tail, "bound": "the repository's 129 baseline tests, run on the mechanically instrumented modules"}}, viol


# --------------------------------------------------------------------------- dispatch
QUICK = {"den": 60, "modes": 25, "macros": 60, "history": 30, "parser": 300, "validaddr": 40, "cli": 1, "binary": 1}
THOROUGH = {"den": 2500, "modes": 400, "macros": 1500, "history": 182, "parser": 20000, "validaddr": 400, "cli": 1, "binary": 1}
DEN_PROPS = {"C01", "C02", "C03", "C04", "C05", "C06", "C07", "C11"}
QUICK_SWEEP_PROPS = {"C13": ["macros", "resolver"], "C19": ["undefined"], "C14": ["history"], "C20": ["cli_smoke"]}


def run(prop: str, tier: str, seed: int, force: bool = False) -> Tuple[Dict[str, Any], List[Dict[str, Any]]]:
    """returns (coverage additions incl. 'bounded_standins', violations)"""
    B = dict(THOROUGH if tier == "thorough" else QUICK)
    if force and tier != "thorough":
        # something is refuted / undecided: spend more on looking for a concrete failing input
        B = {k: v * 8 for k, v in B.items()}
    plan: List[str] = []
    if tier == "thorough" or force:
        if prop in DEN_PROPS:
            plan.append("den")
        if prop in ("C12", "C11", "C07"):
            plan.append("modes")
        if prop in ("C13",):
            plan += ["macros", "resolver", "undefined"]
        if prop in ("C19",) or (force and prop == "C17"):
            plan += ["undefined", "macros"]
        if prop == "C14" or (force and prop in ("C01", "C15", "C18", "C13", "C19")):
            # the configuration in effect (flags, sections, range) must be this rule's: a refuted obligation about the
            # singleton is looked for as a concrete history of operations
            plan.append("history")
        if prop in ("C08", "C09", "C10", "C16", "C06") or (force and prop in DEN_PROPS):
            # a refuted / undecided obligation about the list handed to the consumer (order, membership) is looked for through the real parser
            plan.append("parser")
        if prop == "C18" or (force and prop in ("C07", "C08", "C09", "C10", "C16")):
            # which instructions enter the stream also depends on the observers installed by valid_addr_range
            plan.append("validaddr")
        if prop == "C20":
            plan.append("cli")
        if prop in ("C15", "C14") or (force and prop == "C18"):
            plan.append("binary")
        if tier == "thorough":
            if prop in ("C08", "C09", "C10", "C16"):
                plan.append("objdump")
            plan.append("identity")
    else:
        plan = list(QUICK_SWEEP_PROPS.get(prop, []))
    cov: Dict[str, Any] = {}
    viol: List[Dict[str, Any]] = []
    standins: List[str] = []
    t0 = time.time()
    for s in plan:
      try:
        if s == "den":
            c, v = den_sweep(B["den"], seed)
        elif s == "modes":
            c, v = modes_sweep(B["modes"], seed)
        elif s == "macros":
            c, v = macros_sweep(B["macros"], seed)
        elif s == "undefined":
            c, v = undefined_macro_sweep()
        elif s == "resolver":
            c, v = resolver_sweep()
        elif s == "history":
            c, v = history_sweep(B["history"], seed)
        elif s == "parser":
            c, v = parser_sweep(B["parser"], seed)
        elif s == "validaddr":
            c, v = validaddr_sweep(B["validaddr"], seed)
        elif s == "cli":
            c, v = cli_sweep(B["cli"], seed)
        elif s == "cli_smoke":
            c, v = cli_smoke()
        elif s == "binary":
            c, v = binary_sweep(B["binary"], seed)
        elif s == "objdump":
            c, v = objdump_conformance(40000, seed)
        elif s == "identity":
            c, v = instrumentation_identity()
        else:
            continue
      except replay.HarnessError as e:
        # the sweep's own use of the public API does not fit this tree: the sweep decided nothing
        cov.setdefault("harness_errors", []).append(f"{s}: {e}")
        continue
      if True:
        cov.update(c)
        for k, d in c.items():
            standins.append(f"{k}: {d.get('bound', '')}")
        viol.extend(v[:5])
    if plan:
        cov["bounded_seconds"] = round(time.time() - t0, 2)
        cov["bounded_standins"] = standins
    return cov, viol


def rerun(prop: str, doc: Dict[str, Any], path: str) -> int:
    """replay of a bounded-sweep violation file"""
    inp = doc.get("input") or doc.get("confirmed_input") or {}
    if "history" in inp:
        ops = inp["history"]
        r = replay.run_real({"kind": "history", "ops": ops})
        fresh = replay.run_real(ops[-1])
        bad = r["ops"][-1] != fresh
        print(json.dumps({"in_history": r["ops"][-1], "fresh": fresh}, indent=1)[:2000])
    elif "config" in inp and "plain" in inp:
        a, b = replay.run_real([{"kind": "parse", "lines": inp["plain"], "stream": True},
                                {"kind": "parse", "lines": inp["plain"], "stream": True, "config": inp["config"]}])
        sa, sb = a.get("stream", {}).get("result"), b.get("stream", {}).get("result")
        print(json.dumps({"default_config": sa, "with_config": sb}, indent=1)[:2000])
        bad = sa != sb
    elif "plain" in inp and "decorated" in inp:
        a, b = replay.run_real([{"kind": "parse", "lines": inp["plain"], "stream": True}, {"kind": "parse", "lines": inp["decorated"], "stream": True}])
        sa, sb = a.get("stream", {}).get("result"), b.get("stream", {}).get("result")
        # the replay file carries a prefix of both listings: the decorated one must at least contain the plain one's records
        print(json.dumps({"plain": (sa or "")[:600], "decorated": (sb or "")[:600]}, indent=1))
        ra, rb = (sa or "").split("|"), (sb or "").split("|")
        k = min(len(ra), len(rb)) - 1
        bad = ra[:k] != rb[:k] or k <= 0
    elif "line" in inp:
        r = replay.run_real({"kind": "parse", "lines": [inp["line"]]})
        exp = OM.decode_line(inp["line"])
        got = r["lines"][0]
        bad = "error" in got or (exp is not None and got.get("inst") != [exp[0], exp[1], exp[2]]) or (exp is None and "inst" in got)
        print(json.dumps({"real": got, "expected": exp}, indent=1))
    elif "rule" in inp and "instructions" in inp:
        r = replay.run_real({"rule": inp["rule"], "insts": inp["instructions"], "mode": "all"})
        why = replay.compare(inp["rule"], OR.records_from_instructions(inp["instructions"]), r)
        print(json.dumps({"real": r, "disagreement": why}, indent=1)[:2000])
        bad = bool(why)
    elif "rule" in inp and "listing" in inp and "macros_file_names" in inp:
        modes = [["matched_addrs_list", "all_finds", True]]
        a = replay.run_real({"kind": "mop", "rule": inp["rule"], "macros_files": inp["macros_files"], "macros_file_names": inp["macros_file_names"],
                             "listing": inp["listing"], "modes": modes})
        b = replay.run_real({"kind": "mop", "rule": INL.inline(inp["rule"], inp["macros_files"]), "listing": inp["listing"], "modes": modes})
        print(json.dumps({"macro_rule": a, "inlined_rule": b}, indent=1)[:2000])
        bad = a.get("results") != b.get("results")
    elif "rule" in inp and "listing" in inp:
        r = replay.run_real({"kind": "mop", "rule": inp["rule"], "listing": inp["listing"], "modes": ALL_MODES})
        why = modes_agree(r)
        print(json.dumps({"real": r, "disagreement": why}, indent=1)[:2000])
        bad = bool(why)
    elif "rule" in inp:
        a = replay.run_real({"kind": "compile", "rule": inp["rule"], "macros_files": inp.get("macros_files")})
        b = replay.run_real({"kind": "compile", "rule": inp["inlined"]}) if inp.get("inlined") else None
        print(json.dumps({"macro_rule": a, "inlined_rule": b}, indent=1)[:2000])
        bad = ("error" not in a and b is None) or (b is not None and ("error" in a or a.get("regex") != b.get("regex")))
    else:
        print("unrecognised replay file")
        return 3
    if bad:
        print(f"VIOLATION property={prop} replay={path}")
        return 1
    print("no disagreement on this tree")
    return 0
