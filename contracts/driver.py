"""C11 / C12 / C07(address): the match loops of CompleteConsumer, MatchedObserver, and the mode
plumbing of MasterOfPuppets._do_matching_and_get_result.

The `regex` module is external: inside jasm.consumer it is replaced by a stub under the assumed
contract T-regex -- finditer returns the sequence M of all leftmost non-overlapping matches
(a symbolic sequence of unknown length), search returns its first element or None.  The loop
over M is verified with an explicit inductive invariant (T1, general form):
    Inv(k):  addr_list = pre ++ map(f, M[:k])   /\\  matched = (k > 0)   /\\  log = one line per element
"""
from __future__ import annotations

from typing import Any, Dict, List, Optional

import z3

from vf import pyvc
from vf.core import Ob, scenario, simple_ob, sym_run, z3_valid, PROVED, worst_per_name
from vf.jasmrt import J, ensure, find_callable, patch_all, restore_all
from vf.pyvc import Name, SymBool, SymSeq, Unsupported, ctx


def ident_of(x) -> str:
    """identity of an opaque value: Name ident, or the rendering of a structured string"""
    if isinstance(x, Name):
        return x.ident
    if isinstance(x, str):
        try:
            return ctx().table.show(str.__str__(x)).strip("‹›")
        except Exception:
            return str.__str__(x)
    return repr(x)


def addr_stub(t):
    from vf import sstr
    return sstr.var("addr(" + ident_of(t) + ")", "[^\\n]*")

class HitList(list):
    """the observer's list of hits during / after the loop over a symbolic sequence of matches: concrete elements and Splice
    placeholders; its truth value and length are symbolic when they depend on the length of the sequence"""

    def _sym_part(self):
        t = z3.IntVal(0)
        for e in self:
            if isinstance(e, Splice):
                t = t + (z3.Int("len!" + e.seq) if e.upto == "len" else z3.Int(e.upto))
        return t

    def __bool__(self):
        if any(not isinstance(e, Splice) for e in self):
            return True
        if not list.__len__(self):
            return False
        return ctx().branch(self._sym_part() > 0)

    def sym_len(self):
        conc = sum(1 for e in self if not isinstance(e, Splice))
        return pyvc.SymInt(z3.simplify(self._sym_part() + conc), "len(addr_list)")

    # the list is append-only for the code under contract: removing, replacing or reordering elements would act on the
    # placeholders natively (a sort / de-duplication of "all hits so far" is not a sort of the placeholder)
    def _frozen(self, *a, **k):
        raise pyvc.Unsupported("the list of hits is reordered / replaced / shortened (native operation on a symbolic sequence of hits)")

    sort = reverse = __setitem__ = __delitem__ = pop = remove = insert = clear = __imul__ = _frozen


CC = "jasm.consumer.CompleteConsumer"
MO = "jasm.matched_observers.MatchedObserver"
MP = "jasm.match.MasterOfPuppets"


class Splice:
    """placeholder inside a concrete list: all elements of map(f, M[:upto]) in order"""

    def __init__(self, seq: str, upto: str, f: Any = None):
        self.seq, self.upto, self.f = seq, upto, f

    def __repr__(self):
        return f"<map over {self.seq}[:{self.upto}]>"

    def render(self, c):
        return repr(self)

    def __eq__(self, other):
        # "is the value equal to one of the earlier elements?" -- unknown: both answers are explored
        if isinstance(other, Splice):
            return other is self
        return ctx().choose(2, "equals-an-earlier-element") == 0

    __hash__ = object.__hash__


class MatchStub:
    def __init__(self, ident: str):
        self.ident = ident

    def __bool__(self):
        return True

    def group(self, n=0):
        if n != 0:
            raise pyvc.Unsupported("group(n) of a match stub")
        # the matched text: any text, possibly EMPTY (a rule that can match zero instructions)
        from vf import sstr
        return sstr.var("text(" + self.ident + ")", "[^\\n]*")

    # positions of the match: unknown integers with start <= end
    def start(self, n=0):
        return self.span(n)[0]

    def end(self, n=0):
        return self.span(n)[1]

    def span(self, n=0):
        if n != 0:
            raise pyvc.Unsupported("span(n) of a match stub")
        a, b = pyvc.sym_int("start(" + self.ident + ")"), pyvc.sym_int("end(" + self.ident + ")")
        pyvc.assume(a.t >= 0)
        pyvc.assume(b.t >= a.t)
        return (a, b)

    def render(self, c):
        return f"match({self.ident})"


class RegexStub:
    """T-regex: records every call"""

    def __init__(self, log: List[Any], search_result: str = "choose"):
        self.log = log
        self.search_result = search_result

    def finditer(self, pattern=None, string=None, timeout=None, **kw):
        self.log.append(("finditer", pattern, string))
        return SymSeq("M", MatchStub("m_k"), min_len=0)

    def search(self, pattern=None, string=None, timeout=None, **kw):
        self.log.append(("search", pattern, string))
        if ctx().choose(2, "search") == 0:
            return MatchStub("m_0")
        return None

    def compile(self, pattern=None, flags=0, **kw):
        """regex.compile(p).search(s) / .finditer(s) are regex.search(p, s) / regex.finditer(p, s) (T-regex; default flags only)"""
        if flags or kw:
            raise pyvc.Unsupported("regex.compile with flags is outside the assumed contract T-regex")
        outer = self

        class _Compiled:
            def search(self_c, string=None, pos=None, endpos=None, timeout=None, **k2):
                if pos is not None or endpos is not None:
                    raise pyvc.Unsupported("compiled.search with pos/endpos")
                return outer.search(pattern, string, timeout=timeout)

            def finditer(self_c, string=None, pos=None, endpos=None, timeout=None, **k2):
                if pos is not None or endpos is not None or k2.get("overlapped"):
                    raise pyvc.Unsupported("compiled.finditer with pos/endpos/overlapped")
                return outer.finditer(pattern, string, timeout=timeout)

            def __getattr__(self_c, name):
                if name in ("match", "fullmatch", "findall", "sub", "split"):
                    return lambda string=None, *a, **k: outer._other(name)(pattern, string)
                raise pyvc.Unsupported(f"compiled regex .{name} is outside the assumed contract T-regex")
        return _Compiled()

    def _other(self, name):
        def call(pattern=None, string=None, *a, **kw):
            self.log.append((name, pattern, string))
            return MatchStub("m_0") if ctx().choose(2, name) == 0 else None
        return call

    def __getattr__(self, name):
        if name in ("match", "fullmatch", "findall", "sub", "split"):
            return self._other(name)     # recorded: the POST on the engine call then fails
        raise pyvc.Unsupported(f"regex.{name} is outside the assumed contract T-regex")


class LogStub:
    def __init__(self, sink: List[Any]):
        self.sink = sink

    def info(self, fmt, *a):
        self.sink.append(("info", fmt, a))

    def debug(self, *a):
        pass

    def warning(self, *a):
        pass

    def error(self, fmt, *a):
        self.sink.append(("error", fmt, a))

    warning = error

    def isEnabledFor(self, level):
        return False

    def __getattr__(self, name):          # critical / exception / log / ...: not part of the output contract
        if name.startswith("__"):
            raise AttributeError(name)
        return lambda *a, **k: None


class MatchLoop:
    """loop contract of do_match_all_findings"""

    def __init__(self, mo, loglist: List[Any], pre: List[Any], obs: List[Ob], func: str, base: str, only_addr: bool):
        self.mo, self.loglist, self.pre, self.obs, self.func, self.base, self.only_addr = mo, loglist, pre, obs, func, base, only_addr
        self.prelog: List[Any] = []

    def establish(self, seq: SymSeq, at: str):
        self.mo.addr_list = HitList(list(self.pre) + [Splice(seq.root, at)])
        if at == "len":
            self.mo._matched = SymBool(z3.Int("len!" + seq.root) > 0)
        else:
            self.mo._matched = SymBool(z3.Int("k") > 0)
        self.prelog = [x for x in self.loglist if x[0] != "splice"]
        self.loglist[:] = self.prelog + [("splice", seq.root, at)]

    def check(self, seq: SymSeq, at: str):
        al = self.mo.addr_list
        want = "addr(text(m_k))" if self.only_addr else "text(m_k)"
        ok = (len(al) == len(self.pre) + 2 and isinstance(al[-2], Splice) and isinstance(al[-1], str) and ident_of(al[-1]) == want
              and al[:len(self.pre)] == self.pre)
        self.obs.append(simple_ob(self.base + ":INV-addr_list", self.func, "INV",
                                  "Inv preserved: after the body on M[k], addr_list = pre ++ map(f, M[:k]) ++ [f(M[k])], f = "
                                  + ("address prefix of the matched text" if self.only_addr else "the matched text"),
                                  ok, ["C11", "C12"], detail=repr(al), witness=repr(al)))
        self.obs.append(simple_ob(self.base + ":INV-matched", self.func, "INV", "Inv preserved: matched is True after an element was appended",
                                  self.mo._matched is True, ["C11", "C12"], detail=repr(self.mo._matched), witness=repr(self.mo._matched)))
        new = self.loglist[len(self.prelog) + 1:]
        okl = len(new) == 1 and new[0][0] == "info" and new[0][1] == "Matched address: %s" and len(new[0][2]) == 1 \
            and isinstance(new[0][2][0], str) and ident_of(new[0][2][0]) == want
        self.obs.append(simple_ob(self.base + ":INV-log", self.func, "INV",
                                  "Inv preserved: exactly one INFO record 'Matched address: <element>' per appended element",
                                  okl, ["C20", "C12"], detail=repr(new), witness=repr(new)))


def _mk_consumer(mode_all: bool, only_addr: bool, relog: List[Any], loglist: List[Any]):
    J.consumer.regex = RegexStub(relog)
    J.mobs.logger = LogStub(loglist)
    J.consumer.logger = LogStub([])
    mo = J.mobs.MatchedObserver()
    mode = J.gd.MatchingSearchMode.all_finds if mode_all else J.gd.MatchingSearchMode.first_find
    c = J.consumer.CompleteConsumer(regex_rule=Name("rule"), matched_observer=mo, matching_mode=mode, return_only_address=only_addr)
    # the address extraction is a function under its own contract (driver:first_addr), wherever it is defined
    patch_all("get_first_addr_from_regex_result", addr_stub, ["consumer"])
    return c, mo


def _restore():
    import importlib
    import regex as real_regex
    J.consumer.regex = real_regex
    from jasm.logging_config import logger as real_logger
    J.mobs.logger = real_logger
    J.consumer.logger = real_logger


def _sb_equal(a: Any, term, pc=()) -> bool:
    """under the path condition, a (bool or SymBool) is logically equal to term"""
    t = a.t if isinstance(a, SymBool) else z3.BoolVal(bool(a))
    return z3_valid(list(pc), t == term)[0] == PROVED


@scenario("driver:match_all", CC + ".do_match_all_findings", ["C11", "C12", "C20"],
          inlined=["MatchedObserver.regex_matched", "MatchedObserver.matched (property)"],
          doc="all-matches loop with inductive invariant over the symbolic sequence of regex hits")
def match_all():
    ensure()
    obs: List[Ob] = []
    for only_addr in (False, True):
        relog: List[Any] = []
        loglist: List[Any] = []
        base = f"do_match_all_findings:only_addr={int(only_addr)}"

        def fn():
            relog.clear()
            loglist.clear()
            c, mo = _mk_consumer(True, only_addr, relog, loglist)
            c._all_instructions = Name("stream")
            ctx().loop_contracts = {"do_match_all_findings": MatchLoop(mo, loglist, [], inner, CC + ".do_match_all_findings", base, only_addr)}
            c.do_match_all_findings()
            return mo
        inner: List[Ob] = []
        try:
            run = sym_run(fn)
        finally:
            _restore()
        # obligations recorded by the loop contract (variant runs produce duplicates: keep one per name)
        obs.extend(worst_per_name(inner))
        for i, p in enumerate(run.paths):
            if p.kind != "ret":
                obs.append(simple_ob(f"{base}:p{i}:EXC", CC + ".do_match_all_findings", "EXC", "no exception", False, ["C11"], detail=repr(p.value), witness="exc"))
                continue
            mo = p.value
            al = mo.addr_list
            ok = len(al) == 1 and isinstance(al[0], Splice) and al[0].upto == "len" and al[0].seq == "M"
            if al == []:      # the path on which M is empty
                ok = z3_valid(p.pc, z3.Int("len!M") <= 0)[0] == PROVED
            obs.append(simple_ob(f"{base}:p{i}:POST-list", CC + ".do_match_all_findings", "POST",
                                 "on return addr_list = map(f, M) for M = finditer(rule, stream): every hit, in order, nothing else",
                                 ok, ["C11", "C12"], detail=repr(al), witness=repr(al)))
            okc = relog == [("finditer", Name("rule"), Name("stream"))] if False else (
                len(relog) == 1 and relog[0][0] == "finditer" and getattr(relog[0][1], "ident", None) == "rule"
                and getattr(relog[0][2], "ident", None) == "stream")
            obs.append(simple_ob(f"{base}:p{i}:POST-call", CC + ".do_match_all_findings", "POST",
                                 "the engine is called exactly once: regex.finditer(pattern = the compiled rule, string = the whole stream)",
                                 okc, ["C11", "C12"], detail=repr(relog), witness=repr(relog)))
            obs.append(simple_ob(f"{base}:p{i}:POST-matched", CC + ".do_match_all_findings", "INV",
                                 "matched <=> addr_list != []  (matched = len(M) > 0)",
                                 _sb_equal(mo._matched, z3.Int("len!M") > 0, p.pc), ["C12"], detail=repr(mo._matched), witness=repr(mo._matched)))
    return obs


@scenario("driver:match_first", CC + ".do_match_first_occurence", ["C11", "C12", "C20"],
          inlined=["MatchedObserver.regex_matched"], doc="first-match mode = regex.search, appended iff it exists")
def match_first():
    ensure()
    obs: List[Ob] = []
    for only_addr in (False, True):
        relog: List[Any] = []
        loglist: List[Any] = []
        base = f"do_match_first_occurence:only_addr={int(only_addr)}"

        def fn():
            relog.clear()
            loglist.clear()
            c, mo = _mk_consumer(False, only_addr, relog, loglist)
            c._all_instructions = Name("stream")
            c.do_match_first_occurence()
            # identities are rendered while the context is active
            mo.addr_list[:] = [("id", ident_of(x)) for x in mo.addr_list]
            return [mo, list(relog), [(a, b, ident_of(c_[0]) if c_ else None) for (a, b, c_) in loglist]]
        try:
            run = sym_run(fn)
        finally:
            _restore()
        want = "addr(text(m_0))" if only_addr else "text(m_0)"
        kinds = set()
        for i, p in enumerate(run.paths):
            if p.kind != "ret":
                obs.append(simple_ob(f"{base}:p{i}:EXC", CC + ".do_match_first_occurence", "EXC", "no exception", False, ["C11"], detail=repr(p.value), witness="exc"))
                continue
            mo, rl, ll = p.value
            found = any("choice!search" in str(c) and not z3.is_not(c) for c in p.pc)
            kinds.add(found)
            al = mo.addr_list
            if found:
                ok = len(al) == 1 and isinstance(al[0], tuple) and al[0][1] == want and mo._matched is True
                okl = len(ll) == 1 and ll[0][1] == "Matched address: %s" and ll[0][2] == want
            else:
                ok = al == [] and mo._matched is False
                okl = ll == []
            obs.append(simple_ob(f"{base}:p{i}:POST", CC + ".do_match_first_occurence", "POST",
                                 f"search {'found m' if found else 'found nothing'}: addr_list = {'[f(m)]' if found else '[]'} and matched = {found}",
                                 ok, ["C11", "C12"], detail=repr((al, mo._matched)), witness=repr(al)))
            obs.append(simple_ob(f"{base}:p{i}:POST-log", CC + ".do_match_first_occurence", "POST",
                                 "one 'Matched address' INFO record iff an element was appended", okl, ["C20"], detail=repr(ll), witness=repr(ll)))
            okc = len(rl) == 1 and rl[0][0] == "search" and getattr(rl[0][1], "ident", None) == "rule" and getattr(rl[0][2], "ident", None) == "stream"
            obs.append(simple_ob(f"{base}:p{i}:POST-call", CC + ".do_match_first_occurence", "POST",
                                 "the engine is called exactly once: regex.search(pattern = the compiled rule, string = the whole stream)",
                                 okc, ["C11", "C12"], detail=repr(rl), witness=repr(rl)))
        obs.append(simple_ob(f"{base}:COVER", CC + ".do_match_first_occurence", "POST", "both outcomes of search explored (vacuity guard)",
                             kinds == {True, False}, ["C11"], detail=repr(kinds)))
    return obs


@scenario("driver:first_addr", CC + ".get_first_addr_from_regex_result", ["C07", "C12"],
          doc="address-only result = text before the first '::'")
def first_addr():
    ensure()
    obs: List[Ob] = []

    from vf import sstr as S_

    for nrec in (1, 2, 3):
        def fn(nrec=nrec):
            # a matched text starts at a record start and covers whole records: address digits of ANY length, "::", the record body
            # (no '|', no "::"), ",|", and possibly further records -- each with its own "::".  A structured string: its length is
            # unknown, so positions counted in characters mean nothing
            a = S_.var("a", "[0-9a-f]+")
            text = a + S_.lit("::") + S_.var("body1", "[^|:][^|]*", avoid="::") + S_.lit(",|")
            for k in range(2, nrec + 1):
                text = text + S_.var(f"a{k}", "[0-9a-f]+") + S_.lit("::") + S_.var(f"body{k}", "[^|:][^|]*", avoid="::") + S_.lit(",|")
            r = find_callable("get_first_addr_from_regex_result", ["consumer"])(text)
            return [getattr(r, "payload", r), a.payload]
        try:
            run = sym_run(fn)
        except Unsupported as e:
            obs.append(simple_ob(f"get_first_addr_from_regex_result:records={nrec}:RUN", CC + ".get_first_addr_from_regex_result", "RUN",
                                 "symbolic execution completes", None, ["C07", "C12"], detail=f"unsupported: {e}"))
            continue
        for i, p in enumerate(run.paths):
            ok = p.kind == "ret" and p.value[0] == p.value[1]
            obs.append(simple_ob(f"get_first_addr_from_regex_result:records={nrec}:p{i}:POST", CC + ".get_first_addr_from_regex_result", "POST",
                                 f"for a matched text of {nrec} record(s) a '::' body ',|' ... the result is the address a of the FIRST record, "
                                 "whatever its number of digits",
                                 ok, ["C07", "C12"], detail=repr(p.value), witness=repr(p.value)))
    return obs


@scenario("driver:finalize", CC + ".finalize", ["C11", "C12", "C20", "C10"],
          inlined=["InstructionObserverConsumer.finalize", "MatchedObserver.finalize", "do_match_first_occurence", "do_match_all_findings"],
          doc="stream = concatenation of the record texts; exactly one engine call according to the search mode; RESULT line")
def finalize():
    ensure()
    obs: List[Ob] = []
    for mode_all in (False, True):
        for only_addr in (False, True):
            relog: List[Any] = []
            loglist: List[Any] = []
            base = f"finalize:all={int(mode_all)}:only_addr={int(only_addr)}"
            inner: List[Ob] = []

            def fn():
                relog.clear()
                loglist.clear()
                c, mo = _mk_consumer(mode_all, only_addr, relog, loglist)
                c._all_instructions_list = SymSeq("records", Name("rec_k"), 0)
                ctx().loop_contracts = {"do_match_all_findings": MatchLoop(mo, loglist, [], inner, CC + ".do_match_all_findings", base, only_addr)}
                c.finalize()
                return [mo, list(relog), list(loglist), ctx().table.show(mo._stringified_instructions)]
            try:
                run = sym_run(fn)
            finally:
                _restore()
            for i, p in enumerate(run.paths):
                if p.kind != "ret":
                    obs.append(simple_ob(f"{base}:p{i}:EXC", CC + ".finalize", "EXC", "no exception", False, ["C11"], detail=repr(p.value), witness="exc"))
                    continue
                mo, rl, ll, shown = p.value
                okc = len(rl) == 1 and rl[0][0] == ("finditer" if mode_all else "search")
                obs.append(simple_ob(f"{base}:p{i}:POST-mode", CC + ".finalize", "POST",
                                     f"search mode {'all_finds -> finditer' if mode_all else 'first_find -> search'}, exactly one engine call",
                                     okc, ["C11", "C12"], detail=repr(rl), witness=repr([x[0] for x in rl])))
                oks = okc and shown == "‹join('',records)›" and run.ctx.table.show(rl[0][2]) == shown \
                    and getattr(rl[0][1], "ident", None) == "rule"
                obs.append(simple_ob(f"{base}:p{i}:POST-stream", CC + ".finalize", "POST",
                                     "the string scanned (and exposed as stringified_instructions) is the concatenation of all record texts in order; the pattern is the compiled rule",
                                     oks, ["C11", "C12", "C10"], detail=f"{shown} / {rl}", witness=shown))
                res = [x for x in ll if x[0] == "info" and str(x[1]).startswith("RESULT")]
                okr = len(res) == 1
                if okr:
                    found_line = "Pattern found" in res[0][1] and "not found" not in res[0][1]
                    m = mo._matched
                    # on this path the logged verdict equals matched
                    mt = m.t if isinstance(m, SymBool) else z3.BoolVal(bool(m))
                    okr = z3_valid(p.pc, mt == z3.BoolVal(found_line))[0] == PROVED
                obs.append(simple_ob(f"{base}:p{i}:POST-result-line", MO + ".finalize", "POST",
                                     "exactly one RESULT line, 'Pattern found' iff matched", okr, ["C20", "C12"], detail=repr(res), witness=repr(res)))
    return obs


@scenario("driver:observer-finalize", MO + ".finalize", ["C11", "C12"],
          doc="FRAME: reporting the verdict leaves the collected hits as they are (same elements, same order, duplicates included)")
def observer_finalize():
    ensure()
    obs: List[Ob] = []
    # (a) over ANY list of hits: a list holding the placeholder of a symbolic sequence of hits -- every operation that replaces,
    # reorders or shortens it is refused by the proxy (UNDECIDED, the witness then comes from the modes sweep)
    def fn():
        mo = J.mobs.MatchedObserver()
        sp = Splice("M", "len", None)
        mo.addr_list = HitList([sp])
        mo._matched = True
        mo.finalize()
        return [mo.addr_list, sp, mo._matched]
    try:
        run = sym_run(fn)
        for i, p in enumerate(run.paths):
            ok = p.kind == "ret" and list.__len__(p.value[0]) == 1 and list.__getitem__(p.value[0], 0) is p.value[1] and p.value[2] is True
            obs.append(simple_ob(f"observer-finalize:any-hits:p{i}:FRAME", MO + ".finalize", "FRAME",
                                 "finalize() leaves addr_list (all hits, in scan order) and the matched flag unchanged", ok, ["C11", "C12"],
                                 detail=repr(p.value)[:200], witness="any list of hits"))
    except Unsupported as e:
        obs.append(simple_ob("observer-finalize:any-hits:RUN", MO + ".finalize", "RUN", "symbolic execution completes", None, ["C11", "C12"],
                             detail=f"unsupported: {e}"))
    # (b) the same on concrete lists at the edges: equal hits, hits whose text order differs from the scan order, no hits
    for lid, hits in (("duplicates", ["0", "0", "0"]), ("text-order", ["ff8", "1000", "1004"]), ("full-text-dups", ["0::push,%rbp,|", "0::push,%rbp,|"]),
                      ("empty", []), ("one", ["401000"])):
        mo = J.mobs.MatchedObserver()
        for h in hits:
            mo.regex_matched(h)
        before, flag = list(mo.addr_list), mo.matched
        try:
            mo.finalize()
            ok, det = list(mo.addr_list) == before and mo.matched == flag, repr(mo.addr_list)
        except Exception as e:   # noqa
            ok, det = False, repr(e)
        obs.append(simple_ob(f"observer-finalize:{lid}:FRAME", MO + ".finalize", "FRAME",
                             f"[{lid}] finalize() leaves the hits {before} and the flag unchanged", ok, ["C11", "C12"], detail=det, witness=repr(hits)))
    return obs


# --------------------------------------------------------------------------- MasterOfPuppets mode plumbing
class ProducerStub:
    def __init__(self, calls):
        self.calls = calls

    def process_file(self, file, iConsumer):
        self.calls.append(("process_file", file))
        iConsumer._all_instructions_list = SymSeq("records", Name("rec_k"), 0)
        iConsumer.finalize()


@scenario("driver:modes", MP + "._do_matching_and_get_result", ["C12", "C11", "C18", "C14"],
          inlined=["ConsumerBuilder.build", "CompleteConsumer.__init__", "prepare_observers", "ObserverBuilder.*", "finalize chain"],
          doc="2x2 search/address modes x 3 return modes: one observer, the return mode only selects the field")
def modes():
    ensure()
    obs: List[Ob] = []
    RM = lambda: J.gd.MatchingReturnMode
    for mode_all in (False, True):
        for only_addr in (False, True):
            for rmode in ("bool", "matched_addrs_list", "all_instructions_string"):
                relog: List[Any] = []
                loglist: List[Any] = []
                calls: List[Any] = []
                base = f"_do_matching_and_get_result:all={int(mode_all)}:only_addr={int(only_addr)}:{rmode}"
                inner: List[Ob] = []
                holder: Dict[str, Any] = {}

                def fn():
                    relog.clear(); loglist.clear(); calls.clear()
                    J.consumer.regex = RegexStub(relog)
                    J.mobs.logger = LogStub(loglist)
                    J.consumer.logger = LogStub([])
                    orig_pb = vars(J.match.ProducerBuilder)["build"]
                    J.match.ProducerBuilder.build = staticmethod(lambda file_type, assembly_style=None: (calls.append(("producer", file_type, assembly_style)), ProducerStub(calls))[1])
                    patch_all("get_first_addr_from_regex_result", addr_stub, ["consumer"])
                    try:
                        mop = J.match.MasterOfPuppets.__new__(J.match.MasterOfPuppets)
                        mop.match_config = J.gd.MatchConfig(
                            pattern_pathstr="p.yaml", input_file=Name("input"), input_file_type=J.gd.InputFileType.assembly,
                            return_only_address=only_addr, return_mode=getattr(RM(), rmode),
                            matching_mode=J.gd.MatchingSearchMode.all_finds if mode_all else J.gd.MatchingSearchMode.first_find)
                        cfg = J.gd.JASMConfig()
                        cfg.load_config({})
                        mop.global_config = cfg
                        # the loop contract needs the observer: it is created inside; hook MatchedObserver
                        orig_mo = J.match.MatchedObserver

                        def mk_mo():
                            m = orig_mo()
                            holder["mo"] = m
                            ctx().loop_contracts = {"do_match_all_findings": MatchLoop(m, loglist, [], inner, CC + ".do_match_all_findings", base, only_addr)}
                            return m
                        J.match.MatchedObserver = mk_mo
                        try:
                            r = mop._do_matching_and_get_result(regex_rule=Name("rule"), assembly_style=J.gd.DisassStyle.att)
                        finally:
                            J.match.MatchedObserver = orig_mo
                        return [r, holder["mo"], list(relog), list(calls)]
                    finally:
                        J.match.ProducerBuilder.build = orig_pb
                        restore_all()
                try:
                    run = sym_run(fn)
                finally:
                    _restore()
                for i, p in enumerate(run.paths):
                    if p.kind != "ret":
                        obs.append(simple_ob(f"{base}:p{i}:EXC", MP + "._do_matching_and_get_result", "EXC", "no exception", False, ["C12"],
                                             detail=repr(p.value) + getattr(p.value, "_pyvc_tb", ""), witness="exc"))
                        continue
                    r, mo, rl, cl = p.value
                    if rmode == "bool":
                        ok = r is mo._matched
                        what = "the observer's matched flag"
                    elif rmode == "matched_addrs_list":
                        al = mo.addr_list
                        ok = r is al or (type(r) is list and type(al) is list and len(r) == len(al) and all(x is y for x, y in zip(r, al)))
                        what = "the observer's addr_list (same elements, same order)"
                    else:
                        ok = r is mo._stringified_instructions or r == mo._stringified_instructions
                        what = "the stream text"
                    obs.append(simple_ob(f"{base}:p{i}:POST-return", MP + "._do_matching_and_get_result", "POST",
                                         f"return mode {rmode} returns {what} of the one observer that collected the hits",
                                         ok, ["C12", "C11"], detail=repr(r)[:100], witness=rmode))
                    okc = len(rl) == 1 and rl[0][0] == ("finditer" if mode_all else "search") and getattr(rl[0][1], "ident", None) == "rule" \
                        and run.ctx.table.show(rl[0][2]) == "‹join('',records)›"
                    obs.append(simple_ob(f"{base}:p{i}:FRAME-engine-call", MP + "._do_matching_and_get_result", "FRAME",
                                         "the engine call (pattern = rule, string = stream) does not depend on return mode / address-only flag; "
                                         "search mode only selects search vs finditer", okc, ["C12"], detail=repr(rl), witness=repr([x[0] for x in rl])))
                    okp = len([c for c in cl if c[0] == "producer"]) == 1 and [c for c in cl if c[0] == "process_file"] \
                        and getattr([c for c in cl if c[0] == "process_file"][0][1], "ident", None) == "input"
                    obs.append(simple_ob(f"{base}:p{i}:POST-producer", MP + "._do_matching_and_get_result", "POST",
                                         "one producer is built and processes exactly the configured input file", bool(okp), ["C12", "C15"],
                                         detail=repr(cl), witness=repr(cl)))
    return obs


# --------------------------------------------------------------------------- what is handed back to the caller
class _ObserverStub:
    """a matched-observer after an arbitrary scan: ANY list of hits (symbolic sequence), any stream text; the flag is the
    observer's invariant (matched <=> at least one hit, driver:match_all / match_first establish it)"""
    def __init__(self, hits=None):
        if hits is None:
            self.addr_list = SymSeq("hits", Name("hit_k"), 0)
            self.matched = SymBool(z3.Int("len!hits") > 0)
        else:      # a concrete list at the edges (equal hits, text order != scan order, none)
            self.addr_list = list(hits)
            self.matched = bool(hits)
        self.stringified_instructions = Name("stream")

    def finalize(self):
        pass


class _ConsumerStub:
    def __init__(self, log):
        self.log = log

    def add_observer(self, o):
        self.log.append(("add_observer", type(o).__name__))


@scenario("driver:return", MP + "._do_matching_and_get_result", ["C11", "C12"],
          doc="whatever the scan collected is handed back as it is: the same hits in the same order (for every list of hits), the flag, the stream")
def returned_value():
    ensure()
    obs: List[Ob] = []
    func = MP + "._do_matching_and_get_result"
    for rmode in ("bool", "matched_addrs_list", "all_instructions_string"):
        holder: Dict[str, Any] = {}
        calls: List[Any] = []

        def fn(rmode=rmode, hits=None):
            calls.clear()
            orig_mo, orig_cb, orig_pb = J.match.MatchedObserver, vars(J.match.ConsumerBuilder)["build"], vars(J.match.ProducerBuilder)["build"]

            def mk():
                holder["mo"] = _ObserverStub(hits)
                return holder["mo"]
            J.match.MatchedObserver = mk
            J.match.ConsumerBuilder.build = staticmethod(lambda *a, **k: _ConsumerStub(calls))
            J.match.ProducerBuilder.build = staticmethod(lambda *a, **k: type("P", (), {"process_file": lambda self, file, iConsumer: calls.append(("process_file",))})())
            try:
                mop = J.match.MasterOfPuppets.__new__(J.match.MasterOfPuppets)
                mop.match_config = J.gd.MatchConfig(pattern_pathstr="p.yaml", input_file=Name("input"), input_file_type=J.gd.InputFileType.assembly,
                                                    return_only_address=False, return_mode=getattr(J.gd.MatchingReturnMode, rmode),
                                                    matching_mode=J.gd.MatchingSearchMode.all_finds)
                cfg = J.gd.JASMConfig()
                cfg.load_config({})
                mop.global_config = cfg
                return [mop._do_matching_and_get_result(regex_rule=Name("rule"), assembly_style=J.gd.DisassStyle.att), holder["mo"]]
            finally:
                J.match.MatchedObserver, J.match.ConsumerBuilder.build, J.match.ProducerBuilder.build = orig_mo, orig_cb, orig_pb
        # the same postcondition on concrete lists at the edges (the ones observer-finalize uses): equal hits, hits whose text
        # order differs from the scan order, no hits -- a de-duplication or a sort in this glue code fails a NAMED obligation
        # with its witness even where the symbolic sequence refuses the operation (RUN undecided)
        if rmode != "all_instructions_string":
            for lid, hits in (("duplicates", ["0", "0", "0"]), ("text-order", ["ff8", "1000", "1004"]),
                              ("full-text-dups", ["0::push,%rbp,|", "0::push,%rbp,|"]), ("empty", []), ("one", ["401000"])):
                want = bool(hits) if rmode == "bool" else list(hits)
                try:
                    crun = sym_run(lambda hits=hits: fn(hits=hits))
                    ok, det = bool(crun.paths), ""
                    for cp in crun.paths:
                        if cp.kind != "ret":
                            ok, det = False, repr(cp.value)
                            break
                        r, mo = cp.value
                        det = repr(r)
                        if not (type(r) is type(want) and r == want and list(mo.addr_list) == list(hits)):
                            ok = False
                            break
                except Exception as e:   # noqa
                    ok, det = False, repr(e)
                obs.append(simple_ob(f"return:{rmode}:{lid}:POST", func, "POST",
                                     f"[{lid}] return mode {rmode}: the observer holds {hits}; the caller receives exactly that (flag / list, scan order, repeats kept)",
                                     ok, ["C11", "C12"], detail=det[:160], witness=repr(hits)))
        try:
            run = sym_run(fn)
        except Exception as e:    # noqa  (e.g. the hits are iterated natively: sorted / set / filtering)
            obs.append(simple_ob(f"return:{rmode}:RUN", func, "RUN", "symbolic execution completes", None, ["C11", "C12"], detail=f"unsupported: {e}"))
            continue
        for i, p in enumerate(run.paths):
            if p.kind != "ret":
                obs.append(simple_ob(f"return:{rmode}:p{i}:EXC", func, "EXC", "no exception", False, ["C11", "C12"], detail=repr(p.value), witness=rmode))
                continue
            r, mo = p.value
            want = {"bool": mo.matched, "matched_addrs_list": mo.addr_list, "all_instructions_string": mo.stringified_instructions}[rmode]
            obs.append(simple_ob(f"return:{rmode}:p{i}:POST", func, "POST",
                                 f"return mode {rmode}: the caller receives exactly what the observer holds (every hit, in scan order, nothing added)",
                                 r is want, ["C11", "C12"], detail=repr(r)[:120], witness=rmode))
    return obs
