"""C06 (compiler half): $deref.  PatternNodeDeref.get_regex -> DerefObjectBuilder.build ->
DerefObject.get_regex, with the four fields present/absent and opaque DEREF-level children."""
from __future__ import annotations

import itertools
from typing import Any, Dict, List

from vf import grammar as G
from vf.core import Ob, scenario, simple_ob, sym_run
from vf.jasmrt import J, child_stub, child_text, ensure, node_data
from vf.pyvc import Name

from contracts.nodes import node_obligations

DF = "jasm.jasm_regex.tree_generators.pattern_node_implementations.deref.PatternNodeDeref.get_regex"
FIELDS = ["main_reg", "register_multiplier", "constant_multiplier", "constant_offset"]
SHORT = {"main_reg": "a", "register_multiplier": "b", "constant_multiplier": "c", "constant_offset": "k"}


REPS = {   # concrete representative component names (detect special-casing of particular spellings)
    "r1": {"main_reg": "%rax", "register_multiplier": "%rbx", "constant_multiplier": "4", "constant_offset": "0x8"},
    "r2": {"main_reg": "rbp", "register_multiplier": "rcx", "constant_multiplier": 1, "constant_offset": "-0x8"},
    "r3": {"main_reg": "%rsp", "register_multiplier": "%r8", "constant_multiplier": 8, "constant_offset": "-8"},
    "r4": {"main_reg": "%rip", "register_multiplier": "%rdx", "constant_multiplier": "2", "constant_offset": 0},
    "r5": {"main_reg": "rdi", "register_multiplier": "rsi", "constant_multiplier": "0x2", "constant_offset": "10"},
}


def _prop_node(field: str, levels, leaf_name):
    """the PatternNodeDerefProperty node of one field; its only child is the component"""
    cid = SHORT[field]
    if isinstance(leaf_name, str):
        inner = J.deref.PatternNodeDerefProperty(node_data(REPS[leaf_name][field], J.gd.TimesType(1, 1), None))
    elif leaf_name:
        # a literal component name: PatternNodeDerefProperty without children renders str(name)
        inner = J.deref.PatternNodeDerefProperty(node_data(Name("n" + cid), J.gd.TimesType(1, 1), None))
    else:
        inner = child_stub(cid, G.DEREF, levels)
    return J.deref.PatternNodeDerefProperty(node_data(field, J.gd.TimesType(1, 1), [inner]))


def _comp_text(field: str, leaf_name) -> str:
    cid = SHORT[field]
    if isinstance(leaf_name, str):
        return str(REPS[leaf_name][field])
    return str.__str__(Name("n" + cid)) if leaf_name else child_text(cid)


def _deref():
    # index and scale present together (k(a,b,c)), both absent, or index without scale (16-bit addressing (%bx,%si))
    for b_c in (False, True, "b-only"):
        for k in (False, True):
            for leaf in (False, True, "r1", "r2", "r3", "r4", "r5"):
                for order in ("canonical", "reversed"):
                    present = ["main_reg"] + (["register_multiplier"] if b_c == "b-only" else
                                              (["register_multiplier", "constant_multiplier"] if b_c else [])) + \
                              (["constant_offset"] if k else [])
                    sid = f"deref:bc={b_c if isinstance(b_c, str) else int(b_c)}:k={int(k)}:{leaf if isinstance(leaf, str) else ('names' if leaf else 'children')}:{order}"

                    def run(present=present, leaf=leaf, order=order, sid=sid, b_c=b_c, k=k):
                        ensure()
                        levels: Dict[str, str] = {}

                        def build(times):
                            fs = list(present) if order == "canonical" else list(reversed(present))
                            kids = [_prop_node(f, levels, leaf) for f in fs]
                            node = J.deref.PatternNodeDeref(node_data("$deref", times, kids))
                            return node.get_regex

                        def spec():
                            t = {f: _comp_text(f, leaf) for f in present}
                            s = r"\[%?" + t["main_reg"]
                            if b_c == "b-only":
                                s += r"\+%?" + t["register_multiplier"]
                            elif b_c:
                                s += r"\+%?" + t["register_multiplier"] + r"\*(?:0x)?" + t["constant_multiplier"]
                            if k:
                                s += r"\+(?:0x)?" + t["constant_offset"]
                            return s + r"\],"
                        rp = {"kind": "deref", "present": present, "level": G.OPER,
                              "fields": ({f: REPS[leaf][f] for f in present} if isinstance(leaf, str) else None)}
                        return node_obligations(DF, sid, ["C06", "C02", "C07", "C11", "C05"], G.OPER, build, spec, levels, replay=rp,
                                                shapes=["one", "sym", (0, 2), (2, 2)], unit=True)
                    scenario(sid, DF, ["C06", "C02", "C07", "C11", "C05"],
                             inlined=["DerefObjectBuilder.build/_child_getter", "DerefObject.__init__/get_regex/"
                                      "_form_regex_with_some_elem_missing/_get_regex_from_full_deref",
                                      "PatternNodeDerefProperty.get_regex", "TimesTypeBuilder.get_min_max_regex"],
                             doc="$deref with the listed fields present")(run)


_deref()


@scenario("deref:no-main-reg", DF, ["C17", "C06"], doc="$deref without main_reg raises")
def no_main():
    ensure()
    obs: List[Ob] = []
    for present in ([], ["constant_offset"], ["register_multiplier", "constant_multiplier"]):
        levels: Dict[str, str] = {}

        def fn(present=present):
            kids = [_prop_node(f, levels, False) for f in present]
            return J.deref.PatternNodeDeref(node_data("$deref", J.gd.TimesType(1, 1), kids)).get_regex()
        run = sym_run(fn)
        for i, p in enumerate(run.paths):
            ok = p.kind == "exc" and isinstance(p.value, ValueError)
            obs.append(simple_ob(f"PatternNodeDeref.get_regex:no-main:{'+'.join(present) or 'none'}:p{i}:EXC", DF, "EXC",
                                 f"$deref with fields {present} (no main_reg) raises ValueError", ok, ["C17", "C06"],
                                 detail=repr(p.value), witness=repr(p.value)[:60]))
    return obs


@scenario("deref:scale-without-index", DF, ["C05", "C06"], doc="a $deref with a scale but no index has no objdump counterpart: only CLOSED / CAPS are checked")
def scale_only():
    ensure()
    from vf import rx
    obs: List[Ob] = []
    for present in (["main_reg", "constant_multiplier"], ["main_reg", "constant_multiplier", "constant_offset"]):
        levels: Dict[str, str] = {}

        def fn(present=present):
            kids = [_prop_node(f, levels, False) for f in present]
            return J.deref.PatternNodeDeref(node_data("$deref", J.gd.TimesType(1, 1), kids)).get_regex()
        run = sym_run(fn)
        for i, p in enumerate(run.paths):
            base = f"PatternNodeDeref.get_regex:scale-only:{'+'.join(SHORT[f] for f in present)}:p{i}"
            try:
                pr = rx.parse(p.value, run.ctx.table) if p.kind == "ret" else None
            except Exception:
                pr = None
            obs.append(simple_ob(base + ":CAPS", DF, "CAPS", "the result parses and contains no capturing group (group numbers = capture registration order)",
                                 pr is not None and pr.ncaps == 0 and not pr.issues, ["C05", "C06"],
                                 detail=repr(p.value) if pr is None else f"{pr.ncaps} capturing groups {pr.issues}", witness=f"{getattr(pr, 'ncaps', None)}"))
    return obs
