"""C14 (no dependence on earlier runs) and C15 (binary route = objdump text route).

C14: JASMConfig.load_config overwrites every configuration key as a function of the current
config only (the singleton is pre-filled with sentinels standing for an arbitrary history); every
key read anywhere is one of those keys; capture table / objdump flag list are allocated per
operation; FRAME scan of process-global state.
C15: argv of the disassembler, stdout pass-through, same parser for both routes.
"""
from __future__ import annotations

import ast
import glob
import os
from typing import Any, Dict, List

from vf import pyvc
from vf.core import Ob, PROVED, REFUTED, UNDECIDED, scenario, simple_ob, sym_run
from vf import instrument
from vf.instrument import repo_root
from vf.jasmrt import J, NullLog, ensure
from vf.pyvc import Name, SymSeq, ctx
from vf.rt import Splice

JC = "jasm.global_definitions.JASMConfig"
P14 = ["C14"]


class Sentinel:
    def __init__(self, k):
        self.k = k

    def __repr__(self):
        return f"<value left by an earlier rule for {self.k}>"


def _keys():
    pm = J.gd.PartialMatchingConfig
    return [pm.MnemonicsFullMatch, pm.OperandsFullMatch, "assembly_style", "valid_addr_range", "sections"]


CONFIGS = {
    "empty": lambda: {},
    "flags-tt": lambda: {"mnemonics-full-match": True, "operands-full-match": True},
    "flags-tf": lambda: {"mnemonics-full-match": True},
    "flags-ft": lambda: {"operands-full-match": True},
    "style-att": lambda: {"style": "att"},
    "style-intel": lambda: {"style": "intel"},
    "range": lambda: {"valid_addr_range": {"min": "0x10", "max": "ff"}},
    "range-equal": lambda: {"valid_addr_range": {"min": "0x401000", "max": "401000"}},
    "range-zero": lambda: {"valid_addr_range": {"min": "0x0", "max": "0"}},
    "range-from-zero": lambda: {"valid_addr_range": {"min": "0", "max": "0x00ff"}},
    "range-upper-case": lambda: {"valid_addr_range": {"min": "0xAB", "max": "0XFF" if False else "FF"}},
    # max below min: an empty range; whatever the loader makes of it (an empty range or a loud error), it is not the previous rule's
    "range-inverted": lambda: {"valid_addr_range": {"min": "0x4fffff", "max": "0x400000"}},
    # malformed ranges (a missing bound, an unquoted number, not hexadecimal): loud, or loaded -- never the previous rule's range
    "range-bad-missing-max": lambda: {"valid_addr_range": {"min": "0x10"}},
    "range-bad-unquoted": lambda: {"valid_addr_range": {"min": 4198400, "max": 4202495}},
    "range-bad-nonhex": lambda: {"valid_addr_range": {"min": "start", "max": "end"}},
    "range-bad-not-mapping": lambda: {"valid_addr_range": "0x10-0xff"},
    "sections-seq": lambda: {"sections": SymSeq("sections", Name("sec_k"), 0)},
    "sections-two": lambda: {"sections": [Name("s1"), Name("s2")]},
    "all": lambda: {"style": "att", "mnemonics-full-match": False, "operands-full-match": True,
                    "valid_addr_range": {"min": "1", "max": "2"}, "sections": [Name("s1")]},
}


def _expected(conf: Dict[str, Any]) -> Dict[Any, Any]:
    pm = J.gd.PartialMatchingConfig
    exp: Dict[Any, Any] = {
        pm.MnemonicsFullMatch: conf.get("mnemonics-full-match", False),
        pm.OperandsFullMatch: conf.get("operands-full-match", False),
        "assembly_style": J.gd.DisassStyle.intel if conf.get("style") == "intel" else J.gd.DisassStyle.att,
        "sections": conf.get("sections", []),
    }
    return exp


@scenario("config:load_config", JC + ".load_config", ["C14", "C01", "C15", "C18", "C17"],
          inlined=["_load_full_match_options", "_load_assembly_style", "_load_valid_addr_range", "_load_sections", "_set_info",
                   "ValidAddrRange.__init__"],
          doc="every key is overwritten by a value that depends on the loaded config only")
def load_config():
    ensure()
    obs: List[Ob] = []
    for cid, mk in CONFIGS.items():
        def fn():
            cfg = J.gd.JASMConfig.get_instance()
            cfg.global_info.clear()
            for k in _keys():
                cfg.global_info[k] = Sentinel(k)          # arbitrary history
            conf = mk()
            cfg.load_config(conf)
            return [dict(cfg.global_info), conf]
        run = sym_run(fn)
        for i, p in enumerate(run.paths):
            base = f"load_config:{cid}:p{i}"
            if p.kind != "ret":
                loud_ok = (cid == "range-inverted" and isinstance(p.value, ValueError)) or cid.startswith("range-bad")
                obs.append(simple_ob(base + ":EXC", JC + ".load_config", "EXC", "no exception for a valid config (an inverted range may be "
                                     "rejected with ValueError)", loud_ok, ["C14", "C01", "C15", "C18"], detail=repr(p.value), witness=cid))
                continue
            gi, conf = p.value
            stale = [k for k, v in gi.items() if isinstance(v, Sentinel)]
            obs.append(simple_ob(base + ":POST-overwrites", JC + ".load_config", "POST",
                                 "after load_config no key keeps a value from an earlier rule (each of the five keys is written, absent options are reset)",
                                 not stale and set(gi.keys()) == set(_keys()), P14, detail=f"stale={stale} keys={list(gi.keys())}", witness=repr(stale)))
            exp = _expected(conf)
            bad = []
            for k, v in exp.items():
                g = gi.get(k)
                same = (g is v) or (not isinstance(v, (SymSeq, list)) and g == v) or (isinstance(v, list) and g == v)
                if not same:
                    bad.append((k, g, v))
            vr = gi.get("valid_addr_range")
            if cid.startswith("range-bad"):
                okr = vr is None or isinstance(vr, J.gd.ValidAddrRange)       # accepted somehow: this rule's, not a stale one
            elif "valid_addr_range" in conf:
                okr = isinstance(vr, J.gd.ValidAddrRange) and vr.min.hex == int(conf["valid_addr_range"]["min"].replace("0x", ""), 16) \
                    and vr.max.hex == int(conf["valid_addr_range"]["max"].replace("0x", ""), 16)
            else:
                okr = vr is None
            obs.append(simple_ob(base + ":POST-values", JC + ".load_config", "POST",
                                 "each key equals its function of the current config: flags (default False), style (default att), "
                                 "sections (default []), valid_addr_range (default None)", not bad and okr, ["C14", "C01", "C15", "C18"],
                                 detail=f"{bad} range={vr}", witness=repr(bad)))
    # wrongly typed values raise (C17)
    for cid, conf in (("flag-str", {"mnemonics-full-match": "yes"}), ("flag-int", {"operands-full-match": 1}),
                      ("sections-str", {"sections": ".text"}), ("sections-int-elem", {"sections": [1]})):
        run = sym_run(lambda conf=conf: J.gd.JASMConfig.get_instance().load_config(conf))
        for i, p in enumerate(run.paths):
            obs.append(simple_ob(f"load_config:{cid}:p{i}:EXC", JC + ".load_config", "EXC", f"[{cid}] a wrongly typed config value raises ValueError",
                                 p.kind == "exc" and isinstance(p.value, ValueError), ["C17"], detail=repr(p.value), witness=cid))
    return obs


def _src_files():
    root = os.path.join(repo_root(), "src", "jasm")
    return sorted(glob.glob(os.path.join(root, "**", "*.py"), recursive=True))


@scenario("config:keys-read", JC + ".get_info", ["C14"], doc="every configuration key read anywhere is written by load_config (static)")
def keys_read():
    written, read = set(), set()
    where: Dict[str, List[str]] = {}
    # module-level string constants (NAME = "text" / NAME: Final = "text"): a key written through a named constant is that text
    consts: Dict[str, str] = {}
    for f in _src_files():
        for st in instrument.parse_file(f).body:
            tgt, val = None, None
            if isinstance(st, ast.Assign) and len(st.targets) == 1 and isinstance(st.targets[0], ast.Name):
                tgt, val = st.targets[0].id, st.value
            elif isinstance(st, ast.AnnAssign) and isinstance(st.target, ast.Name) and st.value is not None:
                tgt, val = st.target.id, st.value
            if tgt and isinstance(val, ast.Constant) and isinstance(val.value, str):
                consts[tgt] = repr(val.value) if tgt not in consts or consts[tgt] == repr(val.value) else "<ambiguous>"

    def keytext(e):
        if isinstance(e, ast.Name) and consts.get(e.id, "<ambiguous>") != "<ambiguous>":
            return consts[e.id]
        if isinstance(e, ast.Attribute) and isinstance(e.value, ast.Name) and e.attr in consts and consts[e.attr] != "<ambiguous>" \
                and not e.value.id[:1].isupper():
            return consts[e.attr]          # module.NAME
        return ast.unparse(e)
    passthrough = set()       # functions that hand one of their own parameters to get_info: their call sites name the keys
    for f in _src_files():
        tree = instrument.parse_file(f)
        for fn_ in [x for x in ast.walk(tree) if isinstance(x, (ast.FunctionDef, ast.AsyncFunctionDef))]:
            params = set(a_.arg for a_ in fn_.args.posonlyargs + fn_.args.args + fn_.args.kwonlyargs)
            for n in ast.walk(fn_):
                if isinstance(n, ast.Call) and isinstance(n.func, ast.Attribute) and n.func.attr == "get_info" and n.args \
                        and isinstance(n.args[0], ast.Name) and n.args[0].id in params:
                    n._param_key = True
                    if fn_.name != "get_info":
                        passthrough.add(fn_.name)
        for n in ast.walk(tree):
            if isinstance(n, ast.Call) and isinstance(n.func, ast.Attribute) and n.func.attr in ("_set_info", "get_info") and n.args:
                k = keytext(n.args[0])
                if n.func.attr == "_set_info":
                    written.add(k)
                elif k != "key" and not getattr(n, "_param_key", False):
                    read.add(k)
                    where.setdefault(k, []).append(os.path.relpath(f, repo_root()))
            if isinstance(n, ast.Subscript) and isinstance(n.value, ast.Attribute) and n.value.attr == "global_info":
                k = keytext(n.slice)
                if isinstance(n.ctx, ast.Load) and k != "key":
                    read.add(k)
    # allow_matching_substring(key) passes the enum through: its call sites name the keys
    for f in _src_files():
        tree = instrument.parse_file(f)
        for n in ast.walk(tree):
            if isinstance(n, ast.Call) and isinstance(n.func, (ast.Attribute, ast.Name)) and n.args \
                    and (n.func.attr if isinstance(n.func, ast.Attribute) else n.func.id) in (passthrough | {"allow_matching_substring"}):
                a0 = n.args[0]
                if not (isinstance(a0, ast.Name) and a0.id in ("key", "self", "cls")):
                    read.add(keytext(a0))
    missing = sorted(k for k in read if k not in written)
    return [simple_ob("JASMConfig:keys-read-subset-written", JC + ".get_info", "FRAME",
                      f"every key read ({sorted(read)}) is among the keys load_config writes ({sorted(written)})",
                      not missing, P14, detail=f"read but never written by load_config: {missing} {where}", witness=repr(missing))]


ALLOWED_GLOBAL_STATE = {
    ("global_definitions.py", "assign:cls._instance"),
    ("global_definitions.py", "assign:cls.global_info"),
    ("global_definitions.py", "assign:JASMConfig._instance"),
    ("logging_config.py", "module:logger"),
}
MUT = {"append", "extend", "update", "add", "setdefault", "pop", "clear", "insert", "remove", "discard", "popitem", "sort", "reverse"}


@scenario("config:frame-scan", "src/jasm (all modules)", ["C14", "C13", "C19"], doc="process-global mutable state written by the code (static scan)")
def frame_scan():
    found = []
    mutated = set()
    trees = {f: instrument.parse_file(f) for f in _src_files()}
    for f, tree in trees.items():
        for n in ast.walk(tree):
            if isinstance(n, ast.Call) and isinstance(n.func, ast.Attribute) and n.func.attr in MUT:
                v = n.func.value
                mutated.add(v.attr if isinstance(v, ast.Attribute) else (v.id if isinstance(v, ast.Name) else ""))
            if isinstance(n, (ast.Assign, ast.AugAssign, ast.Delete)):
                tgs = n.targets if isinstance(n, (ast.Assign, ast.Delete)) else [n.target]
                for tg in tgs:
                    if isinstance(tg, ast.Subscript):
                        v = tg.value
                        mutated.add(v.attr if isinstance(v, ast.Attribute) else (v.id if isinstance(v, ast.Name) else ""))
    CONT = ("dict", "list", "set", "defaultdict", "OrderedDict", "getLogger", "Counter", "deque")

    def is_container(v):
        return isinstance(v, (ast.List, ast.Dict, ast.Set, ast.ListComp, ast.DictComp)) or \
            (isinstance(v, ast.Call) and isinstance(v.func, (ast.Name, ast.Attribute))
             and (v.func.id if isinstance(v.func, ast.Name) else v.func.attr) in CONT)
    for f, tree in trees.items():
        base = os.path.basename(f)
        for st in tree.body:          # module-level containers that something mutates
            if isinstance(st, (ast.Assign, ast.AnnAssign)) and st.value is not None and is_container(st.value):
                tg = st.targets[0] if isinstance(st, ast.Assign) else st.target
                nm = ast.unparse(tg)
                if nm in mutated or nm == "logger":
                    found.append((base, "module:" + nm))
        for n in ast.walk(tree):
            if isinstance(n, ast.Global):
                for nm in n.names:
                    found.append((base, "global:" + nm))
            if isinstance(n, ast.ClassDef):
                for st in n.body:     # class-level containers that something mutates
                    if isinstance(st, (ast.Assign, ast.AnnAssign)) and st.value is not None and is_container(st.value):
                        tg = st.targets[0] if isinstance(st, ast.Assign) else st.target
                        if ast.unparse(tg) in mutated:
                            found.append((base, f"classbody:{n.name}.{ast.unparse(tg)}"))
            if isinstance(n, (ast.Assign, ast.AugAssign)):      # run-time writes to class attributes
                tgs = n.targets if isinstance(n, ast.Assign) else [n.target]
                for tg in tgs:
                    if isinstance(tg, ast.Attribute) and isinstance(tg.value, ast.Name) and (tg.value.id == "cls" or tg.value.id[:1].isupper()):
                        found.append((base, "assign:" + ast.unparse(tg)))
            if isinstance(n, ast.FunctionDef):
                for d in n.args.defaults + [x for x in n.args.kw_defaults if x is not None]:
                    if is_container(d):
                        found.append((base, f"default:{n.name}(mutable default argument)"))
                for dec in n.decorator_list:
                    dn = ast.unparse(dec)
                    if "cached_property" in dn:
                        # per-INSTANCE state: process-global only when the class keeps a singleton (`_instance`)
                        owner = next((c_ for c_ in ast.walk(tree) if isinstance(c_, ast.ClassDef) and n in c_.body), None)
                        single = owner is not None and any(isinstance(x, ast.Name) and x.id == "_instance" or isinstance(x, ast.Attribute) and x.attr == "_instance"
                                                           for x in ast.walk(owner))
                        if single:
                            found.append((base, f"cache:{n.name}@{dn} (on a singleton)"))
                    elif any(x in dn for x in ("lru_cache", "cache", "memo")):
                        found.append((base, f"cache:{n.name}@{dn}"))
    extra = sorted(set(x for x in found if x not in ALLOWED_GLOBAL_STATE))
    ob = simple_ob("FRAME:global-state", "src/jasm (all modules)", "FRAME",
                   "the only process-global state written by JASM is the JASMConfig singleton (reloaded by every compilation) and the logger",
                   True if not extra else None, ["C14", "C13", "C19"], detail=f"further global / class-level / cached state: {extra} -- its independence of earlier runs is not proved")
    return [ob]


@scenario("config:per-operation", "jasm.jasm_regex.yaml2regex.Yaml2Regex.__init__", ["C14", "C01", "C15", "C18", "C05"],
          inlined=["context_initializer", "_load_config", "MasterOfPuppets.__init__"], doc="config is loaded and capture table allocated per compilation")
def per_operation():
    ensure()
    obs: List[Ob] = []
    PCFG = ["C14", "C01", "C15", "C18"]     # the flags / sections / range in effect are those of THIS rule
    calls: List[Any] = []
    Y = J.y2r.Yaml2Regex
    orig_lf, orig_lc = Y.load_file, J.gd.JASMConfig.load_config
    try:
        Y.load_file = staticmethod(lambda file: (calls.append(("load_file", file)), {"pattern": ["x"], "config": {"style": "att"}})[1])
        J.gd.JASMConfig.load_config = lambda self, c: calls.append(("load_config", dict(c)))
        y = Y("rule.yaml")
        ok = calls == [("load_file", "rule.yaml"), ("load_config", {"style": "att"})]
        obs.append(simple_ob("Yaml2Regex.__init__:POST-order", "jasm.jasm_regex.yaml2regex.Yaml2Regex.__init__", "POST",
                             "the constructor reads the rule and loads ITS config into the singleton, once, before anything is compiled",
                             ok, PCFG, detail=repr(calls), witness=repr(calls)))
        calls.clear()
        Y.load_file = staticmethod(lambda file: {"pattern": ["x"]})
        Y("rule.yaml")
        obs.append(simple_ob("Yaml2Regex.__init__:POST-default", "jasm.jasm_regex.yaml2regex.Yaml2Regex.__init__", "POST",
                             "a rule without `config` loads the empty config (all keys reset)", calls == [("load_config", {})], PCFG,
                             detail=repr(calls), witness=repr(calls)))
        # `config:` with nothing below it loads as None: the operation either fails loudly or loads the empty config -- it never
        # keeps the previous rule's configuration by skipping the load
        calls.clear()
        Y.load_file = staticmethod(lambda file: {"pattern": ["x"], "config": None})
        try:
            Y("rule.yaml")
            okn = calls == [("load_config", {})]
            outcome = repr(calls)
        except Exception as e:     # noqa
            okn, outcome = True, f"raises {type(e).__name__}"
        obs.append(simple_ob("Yaml2Regex.__init__:POST-null-config", "jasm.jasm_regex.yaml2regex.Yaml2Regex.__init__", "POST",
                             "an empty `config:` entry (None) raises or loads the empty config; it never leaves the singleton as the previous rule set it",
                             okn, PCFG, detail=outcome, witness=outcome))
        # end to end: the constructor with the REAL load_config -- whatever it does to the rule's config on the way (renaming,
        # defaulting, copying), the singleton ends up with the values the rule wrote, for every entry in its documented spelling
        J.gd.JASMConfig.load_config = orig_lc
        full = {"style": "intel", "mnemonics-full-match": True, "operands-full-match": True,
                "valid_addr_range": {"min": "0x10", "max": "0xff"}, "sections": [".text", ".plt"]}
        for cid, conf in (("all-set", full), ("flags-only", {"mnemonics-full-match": True, "operands-full-match": True}),
                          ("one-flag", {"operands-full-match": True}), ("none", {})):
            J.gd.JASMConfig.get_instance().global_info.clear()
            Y.load_file = staticmethod(lambda file, conf=conf: {"pattern": ["x"], "config": dict(conf)} if conf else {"pattern": ["x"]})
            try:
                Y("rule.yaml")
                raised = None
            except Exception as e:     # noqa
                raised = e
            if raised is not None:
                oke, outcome = False, f"a well-formed configuration is refused: {raised!r}"
            else:
                # read outside the try: a tree whose singleton no longer has this shape is a contract misfit, not a verdict
                gi = dict(J.gd.JASMConfig.get_instance().global_info)
                pm = J.gd.PartialMatchingConfig
                vr = gi.get("valid_addr_range")
                oke = gi.get(pm.MnemonicsFullMatch) is bool(conf.get("mnemonics-full-match", False)) \
                    and gi.get(pm.OperandsFullMatch) is bool(conf.get("operands-full-match", False)) \
                    and gi.get("assembly_style") == (J.gd.DisassStyle.intel if conf.get("style") == "intel" else J.gd.DisassStyle.att) \
                    and gi.get("sections") == conf.get("sections", []) \
                    and ((vr is None) if "valid_addr_range" not in conf else (vr is not None and vr.min.hex == 0x10 and vr.max.hex == 0xff))
                outcome = repr({str(k): (v if not hasattr(v, "min") else (v.min.hex, v.max.hex)) for k, v in gi.items()})
            obs.append(simple_ob(f"Yaml2Regex.__init__:POST-config-values:{cid}", "jasm.jasm_regex.yaml2regex.Yaml2Regex.__init__", "POST",
                                 f"[{cid}] after the constructor the singleton holds exactly the rule's configuration (flags, style, range, sections; "
                                 "defaults for what the rule does not say)", oke, PCFG + ["C17"], detail=outcome[:300], witness=cid))
        Y.load_file = staticmethod(lambda file: {"pattern": ["x"]})
        y = Y("rule.yaml")
        a, b = y.context_initializer(), y.context_initializer()
        okc = a is not b and a.capture_manager is not b.capture_manager and a.capture_manager.capture_group_references == [] \
            and a.capture_manager.capture_group_references is not b.capture_manager.capture_group_references
        obs.append(simple_ob("Yaml2Regex.context_initializer:POST-fresh", "jasm.jasm_regex.yaml2regex.Yaml2Regex.context_initializer", "POST",
                             "every compilation gets a new, empty capture table", okc, ["C14", "C05"], detail="", witness="shared"))
    finally:
        Y.load_file, J.gd.JASMConfig.load_config = orig_lf, orig_lc
    return obs


# --------------------------------------------------------------------------- C15
GD = "jasm.stringify_asm.implementations.gnu_objdump.gnu_objdump_disassembler.GNUObjdumpDisassembler.__init__"
SD = "jasm.stringify_asm.implementations.shell_disassembler.ShellDisassembler.disassemble"
P15 = ["C15"]


@scenario("disasm:flags", GD, ["C15", "C14", "C18"], inlined=["_form_section_flags", "ShellDisassembler.__init__", "JASMConfig.get_info"],
          doc="objdump argv: -d -M att then one -j per configured section, in order")
def flags():
    ensure()
    obs: List[Ob] = []
    CONC = [".text", "hotcode", "UPX0", "__libc_freeres_fn", ".init.text", "CODE"]     # section names need not begin with a dot
    # "+all": the other entries of the rule's config are set as well -- the argv depends on sections (and the style) only;
    # in particular a valid_addr_range never narrows what objdump is asked to disassemble
    OTHER = {"valid_addr_range": {"min": "0x401040", "max": "0x40107f"}, "mnemonics-full-match": True, "operands-full-match": True}
    for sid, mk in (("none", lambda: None), ("empty", lambda: []), ("two", lambda: [Name("s1"), Name("s2")]),
                    ("seq", lambda: SymSeq("sections", Name("sec_k"), 1)), ("concrete", lambda: list(CONC)),
                    ("none+all", lambda: None), ("two+all", lambda: [Name("s1"), Name("s2")])):
        def fn():
            cfg = J.gd.JASMConfig.get_instance()
            conf = {} if mk() is None else {"sections": mk()}
            if sid.endswith("+all"):
                conf.update(OTHER)
            cfg.load_config(conf)
            d1 = J.gnud.GNUObjdumpDisassembler(enum_disas_style=J.gd.DisassStyle.att)
            d2 = J.gnud.GNUObjdumpDisassembler(enum_disas_style=J.gd.DisassStyle.att)
            return [d1.program, d1.flags, d2.flags]
        try:
            run = sym_run(fn)
        except Exception as e:   # noqa
            obs.append(simple_ob(f"GNUObjdumpDisassembler:{sid}:RUN", GD, "RUN", "symbolic execution completes", None, P15, detail=f"unsupported: {e}"))
            continue
        for i, p in enumerate(run.paths):
            base = f"GNUObjdumpDisassembler:{sid}:p{i}"
            if p.kind != "ret":
                obs.append(simple_ob(base + ":EXC", GD, "EXC", "no exception", False, P15, detail=repr(p.value), witness=sid))
                continue
            prog, fl, fl2 = p.value
            head = fl[:3]
            tail = fl[3:]
            if sid in ("none", "empty", "none+all"):
                okt = tail == []
            elif sid in ("two", "two+all"):
                okt = [getattr(x, "ident", x) for x in tail] == ["-j", "s1", "-j", "s2"]
            elif sid == "concrete":
                okt = tail == [x for s_ in CONC for x in ("-j", s_)]
            else:
                okt = (len(tail) == 1 and isinstance(tail[0], Splice) and getattr(tail[0].seq, "flatten", False)
                       and isinstance(tail[0].seq.elem, list) and len(tail[0].seq.elem) == 2 and tail[0].seq.elem[0] == "-j"
                       and getattr(tail[0].seq.elem[1], "ident", None) == "sec_k" and tail[0].seq.root == "sections")
            obs.append(simple_ob(base + ":POST-argv", GD, "POST",
                                 "program objdump, flags = ['-d','-M','att'] ++ flatten([['-j', s] for s in sections]) in order",
                                 prog == "objdump" and head == ["-d", "-M", "att"] and okt, P15 + (["C18"] if sid.endswith("+all") else []),
                                 detail=repr(fl), witness=repr(fl)))
            obs.append(simple_ob(base + ":FRAME-fresh-list", GD, "FRAME", "the flag list is built per instance (no list shared between disassemblers)",
                                 fl is not fl2, ["C14", "C15"], detail="", witness="shared"))
    return obs


class RunResult:
    def __init__(self, rc):
        self.returncode = rc
        self.stdout = Name("stdout")
        self.stderr = Name("stderr")


@scenario("disasm:shell", SD, ["C15", "C17"], doc="the text parsed is exactly the process's stdout; every failure raises")
def shell():
    ensure()
    obs: List[Ob] = []
    import subprocess as real_sp
    calls: List[Any] = []
    OUT = ["ok", "rc1", "fnf", "cpe", "oserr", "missing"]

    def fn():
        calls.clear()
        which = OUT[ctx().choose(len(OUT), "outcome")]

        class PathStub:
            def __init__(self, p):
                self.p = p

            def exists(self):
                return which != "missing"

        class SP:
            CalledProcessError = real_sp.CalledProcessError

            @staticmethod
            def run(argv, **kw):
                calls.append((list(argv), dict(kw)))
                if which == "fnf":
                    raise FileNotFoundError("objdump")
                if which == "cpe":
                    # a disassembler that fails may already have written a banner / partial listing
                    raise real_sp.CalledProcessError(1, argv, output="prog:     file format elf64-x86-64\n\n", stderr="bad format")
                if which == "oserr":
                    raise PermissionError("denied")
                return RunResult(0 if which == "ok" else 1)
        mod = J.shell
        o_sp, o_path, o_log = mod.subprocess, mod.Path, mod.logger
        mod.subprocess, mod.Path = SP, PathStub
        mod.logger = NullLog()
        try:
            d = mod.ShellDisassembler(program=Name("prog"), flags=[Name("f1"), Name("f2")])
            try:
                r = d.disassemble(Name("file"))
                return [which, "ret", r, list(calls)]
            except Exception as e:  # outcome classification is the POST below
                return [which, "exc", e, list(calls)]
        finally:
            mod.subprocess, mod.Path, mod.logger = o_sp, o_path, o_log
    run = sym_run(fn)
    seen = set()
    for i, p in enumerate(run.paths):
        which, kind, val, cl = p.value
        seen.add(which)
        base = f"ShellDisassembler.disassemble:{which}:p{i}"
        if which == "ok":
            ok = kind == "ret" and getattr(val, "ident", None) == "stdout"
            obs.append(simple_ob(base + ":POST-stdout", SD, "POST", "exit status 0: returns exactly the process's stdout", ok, P15, detail=repr(val), witness=which))
            argv, kw = cl[0] if cl else ([], {})
            oka = [getattr(x, "ident", x) for x in argv] == ["prog", "f1", "f2", "file"] and kw.get("capture_output") is True \
                and kw.get("text") is True and len(cl) == 1
            obs.append(simple_ob(base + ":POST-argv", SD, "POST", "one process: argv = [program] ++ flags ++ [input file], output captured as text",
                                 oka, P15, detail=repr(cl), witness=repr(argv)))
        else:
            want = {"rc1": Exception, "fnf": FileNotFoundError, "cpe": J.gd.BinaryFileFormatNotSupported, "oserr": PermissionError,
                    "missing": AssertionError}[which]
            ok = kind == "exc" and isinstance(val, want)
            obs.append(simple_ob(base + ":EXC", SD, "EXC",
                                 {"rc1": "non-zero exit status raises", "fnf": "disassembler program absent raises FileNotFoundError",
                                  "cpe": "disassembler exiting with an error raises BinaryFileFormatNotSupported",
                                  "oserr": "an OS error is re-raised", "missing": "a missing input file raises"}[which],
                                 ok, ["C17", "C15"], detail=f"{kind} {val!r}", witness=which))
    obs.append(simple_ob("ShellDisassembler.disassemble:COVER", SD, "POST", "all six outcomes explored (vacuity guard)", seen == set(OUT), P15, detail=repr(seen)))
    # the class actually used for binaries (GNUObjdumpDisassembler): EVERY disassemble() runs the program and returns THAT run's
    # output -- also for the same path / same flags a second time (the file may have changed in between)
    calls2: List[Any] = []

    class SP2:
        CalledProcessError = real_sp.CalledProcessError

        @staticmethod
        def run(argv, **kw):
            calls2.append(list(argv))
            return type("R", (), {"returncode": 0, "stdout": f"listing #{len(calls2)}", "stderr": ""})()
    mod = J.shell
    o_sp, o_path, o_log = mod.subprocess, mod.Path, mod.logger
    mod.subprocess, mod.Path = SP2, type("P", (), {"__init__": lambda self, p: None, "exists": lambda self: True})
    mod.logger = NullLog()
    try:
        J.gd.JASMConfig.get_instance().load_config({})
        outs = []
        for _k in range(3):
            d = J.gnud.GNUObjdumpDisassembler(enum_disas_style=J.gd.DisassStyle.att)
            outs.append(d.disassemble("same/path.bin"))
        outs.append(d.disassemble("same/path.bin"))
        ok2 = outs == ["listing #1", "listing #2", "listing #3", "listing #4"] and len(calls2) == 4
        detail = f"outputs={outs} process runs={len(calls2)}"
    except Exception as e:     # noqa
        ok2, detail = None, f"unsupported: {type(e).__name__}: {e}"
    finally:
        mod.subprocess, mod.Path, mod.logger = o_sp, o_path, o_log
    obs.append(simple_ob("GNUObjdumpDisassembler.disassemble:FRAME-every-run", SD, "FRAME",
                         "every disassemble() call runs the disassembler and returns that run's output (no listing kept from an earlier call "
                         "for the same path and flags)", ok2, ["C15", "C14"], detail=detail, witness=detail))
    return obs


PIO = ["C15", "C08", "C16", "C07", "C06", "C09", "C10"]      # what reaches the parser is the input's text, of THIS call


@scenario("disasm:routes", "jasm.match.ProducerBuilder.build", ["C15", "C17"] + PIO[1:],
          inlined=["ComposableProducer.__init__/process_file", "NullDisassembler.disassemble"],
          doc="both routes feed the disassembly text to the same parser and consumer")
def routes():
    ensure()
    import tempfile
    obs: List[Ob] = []
    J.gd.JASMConfig.get_instance().load_config({})
    pa = J.match.ProducerBuilder.build(J.gd.InputFileType.assembly)
    pb = J.match.ProducerBuilder.build(J.gd.InputFileType.binary)
    ok = type(pa.parser) is type(pb.parser) and type(pa.parser).__name__ == "ObjdumpParserManual" \
        and type(pa.disassembler).__name__ == "NullDisassembler" and type(pb.disassembler).__name__ == "GNUObjdumpDisassembler" \
        and type(pa) is type(pb)
    obs.append(simple_ob("ProducerBuilder.build:POST-same-parser", "jasm.match.ProducerBuilder.build", "POST",
                         "assembly route: NullDisassembler, binary route: GNUObjdumpDisassembler; the same parser class and producer class for both",
                         ok, P15, detail=f"{type(pa.parser).__name__}/{type(pb.parser).__name__}", witness="parser"))
    try:
        J.match.ProducerBuilder.build("neither")
        okx = False
    except ValueError:
        okx = True
    obs.append(simple_ob("ProducerBuilder.build:EXC", "jasm.match.ProducerBuilder.build", "EXC", "an unknown input type raises ValueError", okx, ["C17"], witness="type"))
    # process_file: parser gets exactly the disassembler's text, then finalize once
    log: List[Any] = []

    class D:
        def disassemble(self, f):
            log.append(("disassemble", f))
            return "TEXT-OF-" + f

    class Pz:
        def parse(self, text, cons):
            log.append(("parse", text, cons))

    class Cz:
        def finalize(self):
            log.append(("finalize",))
    cz = Cz()
    J.producer.ComposableProducer(disassembler=D(), parser=Pz()).process_file("in.bin", cz)
    okp = log == [("disassemble", "in.bin"), ("parse", "TEXT-OF-in.bin", cz), ("finalize",)]
    obs.append(simple_ob("ComposableProducer.process_file:POST", "jasm.stringify_asm.implementations.composable_producer.ComposableProducer.process_file",
                         "POST", "disassemble(file) once, parse(exactly that text, the consumer) once, finalize once, in this order", okp, P15,
                         detail=repr(log), witness=repr([x[0] for x in log])))
    # every process_file call disassembles ITS input (same path again -> disassembled again; nothing kept between calls or
    # between producers), and an input the disassembler rejects is an error of the operation (never "nothing to scan")
    log.clear()
    texts = iter(["FIRST", "SECOND", "THIRD"])

    class D2:
        def disassemble(self, f):
            log.append(("disassemble", f))
            return next(texts)
    PC = J.producer.ComposableProducer
    p1 = PC(disassembler=D2(), parser=Pz())
    p1.process_file("same/path.s", cz)
    p1.process_file("same/path.s", cz)
    PC(disassembler=D2(), parser=Pz()).process_file("same/path.s", cz)
    parsed = [x[1] for x in log if x[0] == "parse"]
    obs.append(simple_ob("ComposableProducer.process_file:FRAME-every-call", "jasm.stringify_asm.implementations.composable_producer.ComposableProducer.process_file",
                         "FRAME", "three calls on the same path (two producers): three disassemblies, each parse receives the text of its own call",
                         parsed == ["FIRST", "SECOND", "THIRD"] and len([x for x in log if x[0] == "disassemble"]) == 3, ["C15", "C14"] + PIO[1:],
                         detail=repr(log)[:300], witness=repr(parsed)))
    log.clear()

    class D3:
        def disassemble(self, f):
            log.append(("disassemble", f))
            raise FileNotFoundError(f)
    try:
        PC(disassembler=D3(), parser=Pz()).process_file("no/such/file*.s", cz)
        okr, det = False, f"returned normally; calls {log}"
    except FileNotFoundError:
        okr, det = [x[0] for x in log] == ["disassemble"], repr(log)
    except Exception as e:     # noqa
        okr, det = False, repr(e)
    obs.append(simple_ob("ComposableProducer.process_file:EXC-propagates", "jasm.stringify_asm.implementations.composable_producer.ComposableProducer.process_file",
                         "EXC", "the disassembler is asked for exactly the given path and its error ends the operation (nothing is parsed or finalized)",
                         okr, ["C17", "C15"], detail=det, witness=det[:80]))
    # assembly route returns the file's text unchanged
    with tempfile.TemporaryDirectory() as t:
        # line ends: a listing written with CRLF (or lone CR) reaches the parser with '\n' line ends, as text files do
        for nm, raw in (("crlf", b"  10:\t90   \tnop\r\n  11:\tc3 \tret\r\n"), ("lf", b"  10:\t90   \tnop\n  11:\tc3 \tret\n"),
                        ("utf8", "  10:\t90   \tnop   # caf\u00e9\n".encode("utf-8"))):
            fpn = os.path.join(t, nm + ".s")
            open(fpn, "wb").write(raw)
            try:
                gotn = J.nulld.NullDisassembler().disassemble(fpn)
            except Exception as e:     # noqa
                gotn = repr(e)
            wantn = raw.decode("utf-8").replace("\r\n", "\n").replace("\r", "\n")
            o_ = simple_ob(f"NullDisassembler.disassemble:{nm}:POST", "jasm.stringify_asm.implementations.null_disassembler.NullDisassembler.disassemble",
                           "POST", "returns the file's text (UTF-8, universal newlines: no '\\r' reaches the line parser)", gotn == wantn, PIO,
                           detail=repr(gotn), witness=nm)
            obs.append(o_)
        fp = os.path.join(t, "l.s")
        txt = "  10:\t90   \tnop\n\n0000 <f>:\n  11:\tc3 \tret    # é\n"
        open(fp, "w", encoding="utf-8").write(txt)
        got = J.nulld.NullDisassembler().disassemble(fp)
        obs.append(simple_ob("NullDisassembler.disassemble:POST", "jasm.stringify_asm.implementations.null_disassembler.NullDisassembler.disassemble",
                             "POST", "returns the file's text unchanged", got == txt, P15, detail=repr(got), witness="text"))
        obs[-1].bounded = "NullDisassembler: checked on one concrete file (file I/O is external)"
        try:
            J.nulld.NullDisassembler().disassemble(os.path.join(t, "missing.s"))
            okm = False
        except OSError:
            okm = True
        obs.append(simple_ob("NullDisassembler.disassemble:EXC", "jasm.stringify_asm.implementations.null_disassembler.NullDisassembler.disassemble",
                             "EXC", "a missing / unreadable listing raises", okm, ["C17"], witness="missing"))
    return obs
