"""Vacuity guards (DESIGN 4.4): deliberately FALSE postconditions on real functions.  Each must be
refuted on every run, otherwise the engine that should have refuted it is vacuous (exit 3)."""
from __future__ import annotations

import z3

from vf import grammar as G
from vf import pyvc, rx, vc
from vf.core import Ob, PROVED, REFUTED, UNDECIDED, lang_ob, norm, scenario, sym_run, z3_valid
from vf.jasmrt import J, child_stub, child_text, ensure, node_data


@scenario("canary:rx", "NodeOr.get_regex", ["*"], doc="NodeOr spec with one alternative dropped must be refuted")
def canary_rx():
    ensure()
    levels = {}
    kids = lambda: [child_stub("c1", G.INST, levels), child_stub("c2", G.INST, levels)]
    run = sym_run(lambda: J.branch.NodeOr(node_data("$or", J.gd.TimesType(1, 1), kids())).get_regex())
    tb = run.ctx.table
    pyvc.CUR = run.ctx
    try:
        wrong = child_text("c1")
    finally:
        pyvc.CUR = None
    lv = dict(levels)
    cb, sb = norm(rx.parse(run.paths[0].value, tb).ast, lv), norm(rx.parse(wrong, tb).ast, lv)
    o = lang_ob("canary:rx:DEN", "NodeOr.get_regex", "CANARY", "FALSE BY CONSTRUCTION: $or[c1,c2] == c1",
                lambda: vc.den(cb, sb, G.INST, lv), ["*"])
    return [o]


@scenario("canary:z3", "TimesTypeBuilder.get_min_max_regex", ["*"], doc="'always returns None' must be refuted")
def canary_z3():
    ensure()

    def fn():
        m, n = pyvc.sym_int("m"), pyvc.sym_int("n")
        pyvc.assume(z3.And(m.t >= 0, m.t <= n.t))
        return J.times.TimesTypeBuilder().get_min_max_regex(J.gd.TimesType(m, n))
    run = sym_run(fn)
    bad = [p for p in run.paths if p.value is not None]
    st = REFUTED if bad else PROVED
    return [Ob("canary:z3:POST", "TimesTypeBuilder.get_min_max_regex", "CANARY",
               "FALSE BY CONSTRUCTION: get_min_max_regex returns None for every 0<=m<=n", st, ["*"], "z3",
               witness=str(bad[0].pc) if bad else "")]


@scenario("canary:rx-conformance", "vf.rx (parser + automaton) vs the `regex` module", ["*"],
          doc="concrete regexes produced by the real compiler: rx acceptance == regex.fullmatch on seeded random words")
def rx_conformance():
    """not a canary in the 'must be refuted' sense: a differential self-test of the rx front end; reported as an
    INTERNAL error (exit 3) if rx and the real engine disagree on any word"""
    ensure()
    import random
    import regex as real
    from vf.rx import Lang, accepts
    J.gd.JASMConfig.get_instance().load_config({})
    sc = lambda: J.sc.SharedContext(capture_manager=J.cm.CapturesManager())
    pats = [
        ["mov", {"push": ["rax"]}],
        [{"$or": ["nop", {"add": ["%rax", {"$deref": {"main_reg": "rbx", "constant_offset": 8}}]}]}],
        [{"$not": ["call"]}, {"$and_any_order": ["push", "pop"]}],
        [{"mov": [{"$not": ["rax"]}], "times": {"min": 0, "max": 2}}, "ret"],
    ]
    rnd = random.Random(5)
    alphabet = ["1", "a", ":", ",", "|", "m", "o", "v", "p", "u", "s", "h", "r", "x", "%", "[", "]", "+", "8", "0", "n", "c", "l", "e", "t", "d", "b"]
    bad = []
    n = 0
    for p in pats:
        tree = J.builder.PatternNodeBuilderNoParents({"$and": p}, sc()).build()
        text = J.ast_builder.GeneralPatternNodeBuilder().build(tree).get_regex()
        ast = rx.parse(text).ast
        # look-aheads are letters in rx: restrict the differential test to look-ahead-free regexes
        if "(?!" in text:
            continue
        # bounded skips {0,N} with N >= 256 are unrolled as * : identical on the test words (all shorter than 256)
        L = Lang(rx.tloop(rx.strip_groups(ast)))
        comp = real.compile(text)
        for _ in range(300):
            k = rnd.choice([0, 5, 9, 12, 15, 20, 30])
            w = "".join(rnd.choice(alphabet) for _ in range(k))
            if rnd.random() < 0.5:
                w = rnd.choice(["1::mov,,|", "1::mov,,|2::push,%rax,|", "a::nop,,|", "1::add,%rax,[%rbx+0x8],|", "1::ret,,|", "1::mov,rbx,|1::ret,,|"]) + \
                    (w if rnd.random() < 0.3 else "")
            n += 1
            if accepts(L, list(w)) != (comp.fullmatch(w) is not None):
                bad.append((text[:60], w))
    st = PROVED if not bad and n > 500 else REFUTED
    # family CANARY expects REFUTED; this is a conformance test, so use family SELFTEST (must be proved)
    return [Ob("selftest:rx-conformance", "vf.rx", "SELFTEST", f"rx automaton acceptance == regex.fullmatch on {n} words over the stream alphabet", st, ["*"],
               "rxeq", witness=repr(bad[:2]), detail=repr(bad[:3]))]


@scenario("canary:symre", "vf.symre.split", ["*"], doc="'operand order reversed' must be refuted")
def canary_symre():
    ensure()
    from vf import sstr

    def fn():
        a, b = sstr.var("r0", "%[a-z0-9]+"), sstr.var("k1", "0x[0-9a-f]+") + "(" + sstr.var("a1", "%[a-z0-9]+") + ")"
        # the engine under test is symre (re.split on a structured string), driven directly so that the canary does not depend
        # on how the repository happens to implement its splitter
        from vf import rt
        got = rt._Re().split(r",(?![^\(]*\))", a + "," + b)
        return [[str.__str__(x) for x in got], [str.__str__(b), str.__str__(a)]]
    run = sym_run(fn)
    refuted = all(p.kind == "ret" and p.value[0] != p.value[1] for p in run.paths)
    return [Ob("canary:symre:POST", "LineParser.get_splitted_operands", "CANARY", "FALSE BY CONSTRUCTION: the splitter returns the operands in reversed order",
               REFUTED if refuted else PROVED, ["*"], "symre")]
