"""Vacuity guards (DESIGN 4.4): deliberately FALSE postconditions on real functions.  Each must be
refuted on every run, otherwise the engine that should have refuted it is vacuous (exit 3)."""
from __future__ import annotations

import z3

from vf import grammar as G
from vf import pyvc, rx, vc
from vf.core import Ob, PROVED, REFUTED, UNDECIDED, lang_ob, norm, scenario, sym_run, z3_valid
from vf.jasmrt import J, child_stub, child_text, ensure, node_data


@scenario("canary:rx", "NodeOr.get_regex", ["*"], doc="NodeOr spec with one alternative dropped must be refuted")
def canary_rx():
    ensure()
    levels = {}
    kids = lambda: [child_stub("c1", G.INST, levels), child_stub("c2", G.INST, levels)]
    run = sym_run(lambda: J.branch.NodeOr(node_data("$or", J.gd.TimesType(1, 1), kids())).get_regex())
    tb = run.ctx.table
    pyvc.CUR = run.ctx
    try:
        wrong = child_text("c1")
    finally:
        pyvc.CUR = None
    lv = dict(levels)
    cb, sb = norm(rx.parse(run.paths[0].value, tb).ast, lv), norm(rx.parse(wrong, tb).ast, lv)
    o = lang_ob("canary:rx:DEN", "NodeOr.get_regex", "CANARY", "FALSE BY CONSTRUCTION: $or[c1,c2] == c1",
                lambda: vc.den(cb, sb, G.INST, lv), ["*"])
    return [o]


@scenario("canary:z3", "TimesTypeBuilder.get_min_max_regex", ["*"], doc="'always returns None' must be refuted")
def canary_z3():
    ensure()

    def fn():
        m, n = pyvc.sym_int("m"), pyvc.sym_int("n")
        pyvc.assume(z3.And(m.t >= 0, m.t <= n.t))
        return J.times.TimesTypeBuilder().get_min_max_regex(J.gd.TimesType(m, n))
    run = sym_run(fn)
    bad = [p for p in run.paths if p.value is not None]
    st = REFUTED if bad else PROVED
    return [Ob("canary:z3:POST", "TimesTypeBuilder.get_min_max_regex", "CANARY",
               "FALSE BY CONSTRUCTION: get_min_max_regex returns None for every 0<=m<=n", st, ["*"], "z3",
               witness=str(bad[0].pc) if bad else "")]
