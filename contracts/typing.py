"""Typing of the untyped pattern tree (ast_builder.py handler chains) and construction of the
untyped tree from YAML (pattern_node_builder.py).  C01/C03/C04/C05/C06/C17.

Modularity: while NodeBuilder.build is verified for one node, the recursive calls on the
node's children are replaced by a stub that records (builder class, child, build context)
and returns an opaque typed child of the level that (builder, context) denotes.  That turns the
recursion over the pattern tree into structural induction; the children may be a symbolic
sequence of any length (T1 rewrite of the append loops).
"""
from __future__ import annotations

from typing import Any, Dict, List, Optional

from vf import grammar as G
from vf import pyvc
from vf.core import Ob, scenario, simple_ob, sym_run
from vf.jasmrt import J, child_stub, ensure, node_data
from vf.pyvc import Name, SymSeq, Unsupported, ctx

NB = "jasm.jasm_regex.tree_generators.pattern_node_type_builder.ast_builder.NodeBuilder.build"


class BuildLog:
    def __init__(self):
        self.calls: List[Any] = []
        self.depth = 0


def level_of(builder_cls: str, ctxt: Any) -> str:
    a = None if ctxt is None else ctxt.ancester_type.name
    if builder_cls == "GeneralPatternNodeBuilder" and a is None:
        return G.INST
    if builder_cls == "OperandBuilder" and a == "MNEMONIC":
        return G.OPER
    if builder_cls == "DerefChildrenBuilder" and a == "DEREF":
        return G.DEREF
    return f"MISMATCH({builder_cls},{a})"


class patched_build:
    """entry call runs the real NodeBuilder.build; nested calls are answered by the contract"""

    def __init__(self, log: BuildLog, levels: Dict[str, str]):
        self.log, self.levels = log, levels

    def __enter__(self):
        cls = J.ast_builder.NodeBuilder
        self.orig = cls.build
        log, levels, orig = self.log, self.levels, self.orig

        def build(self_b, pattern_node, build_context=None):
            if log.depth == 0:
                log.depth += 1
                try:
                    return orig(self_b, pattern_node, build_context)
                finally:
                    log.depth -= 1
            lv = level_of(type(self_b).__name__, build_context)
            cid = getattr(pattern_node, "cid", None) or f"n{len(log.calls)}"
            log.calls.append((type(self_b).__name__, cid, None if build_context is None else build_context.ancester_type.name))
            kids = getattr(pattern_node, "children", None)
            return child_stub("t:" + cid, lv, levels, name=getattr(pattern_node, "name", None), times=getattr(pattern_node, "times", None),
                              nkids=len(kids) if type(kids) is list else None)
        cls.build = build
        return self

    def __exit__(self, *a):
        J.ast_builder.NodeBuilder.build = self.orig


def untyped(name, children=None, cid=None, sc=None):
    n = J.untyped.PatternNodeTmpUntyped(node_data(name, J.gd.TimesType(1, 1), children, sc))
    n.cid = cid or str(name)
    return n


def kids_shapes(op=None):
    yield "k2", lambda: [untyped(Name("x1"), cid="x1"), untyped(Name("x2"), cid="x2")]
    # a child that is itself an operator node with the SAME name stays ONE child (operators are not flattened:
    # $and_any_order[a, $and_any_order[b, c]] keeps b and c adjacent)
    yield "nested", lambda: [untyped(Name("x1"), cid="x1"),
                             untyped(op or "$and_any_order", [untyped(Name("y1"), cid="y1"), untyped(Name("y2"), cid="y2")], cid="x2")]
    # the same, both nodes repeated the same way: the inner quantifier is the inner group's own (C02)
    def _nested_times():
        inner = untyped(op or "$and_any_order", [untyped(Name("y1"), cid="y1"), untyped(Name("y2"), cid="y2")], cid="x2")
        inner.times = J.gd.TimesType(2, 2)
        return [untyped(Name("x1"), cid="x1"), inner]
    yield "nested-times", _nested_times
    yield "seq", lambda: SymSeq("children", untyped(Name("xg"), cid="xg"), min_len=1)
    yield "empty", lambda: []
    yield "none", lambda: None


CTX = {"none": lambda: None,
       "MNEMONIC": lambda: J.ast_builder.BuildContext(ancester_type=J.ast_builder.FatherType.MNEMONIC),
       "DEREF": lambda: J.ast_builder.BuildContext(ancester_type=J.ast_builder.FatherType.DEREF)}
BUILDER_OF_CTX = {"none": "GeneralPatternNodeBuilder", "MNEMONIC": "OperandBuilder", "DEREF": "DerefChildrenBuilder"}
LEVEL_OF_CTX = {"none": G.INST, "MNEMONIC": G.OPER, "DEREF": G.DEREF}

OPERATORS = {"$and": "NodeAnd", "$or": "NodeOr", "$and_any_order": "NodeAndAnyOrder"}


def _check_children(res, kshape, expect_builder, expect_ctx, log: BuildLog):
    """children of the typed node == map(build(., ctx), children) in order, each built by expect_builder"""
    ch = res.children
    if kshape == "seq":
        if not isinstance(ch, SymSeq):
            return False, f"children is {type(ch).__name__}, not the image of the symbolic sequence"
        if getattr(ch.elem, "cid", None) != "t:xg":
            return False, f"generic child is {ch.elem!r}"
        if ch.root != "children":
            return False, "children were re-ordered / taken from another sequence"
    else:
        ids = [getattr(c, "cid", None) for c in (ch or [])]
        if ids != ["t:x1", "t:x2"]:
            return False, f"children order/identity {ids}"
    for (b, cid, c) in log.calls:
        if b != expect_builder or c != expect_ctx:
            return False, f"child {cid} built by {b} with context {c}; expected {expect_builder} with {expect_ctx}"
    return True, ""


def _operator_typing():
    for cname in ("none", "MNEMONIC", "DEREF"):
        for op, cls in list(OPERATORS.items()):
            for kshape in ("k2", "nested", "nested-times", "seq", "empty", "none"):
                sid = f"typing:{op}:{cname}:{kshape}"

                def run(cname=cname, op=op, cls=cls, kshape=kshape, sid=sid):
                    ensure()
                    levels: Dict[str, str] = {}
                    log = BuildLog()
                    mk = dict(kids_shapes(op))[kshape]

                    def fn():
                        log.calls.clear()
                        with patched_build(log, levels):
                            b = getattr(J.ast_builder, BUILDER_OF_CTX[cname])()
                            root = untyped(op, mk(), cid="root")
                            if kshape == "nested-times":
                                root.times = J.gd.TimesType(2, 2)
                            return b.build(root, CTX[cname]())
                    run_ = sym_run(fn)
                    obs: List[Ob] = []
                    props = ["C03", "C17", "C02"]
                    for i, p in enumerate(run_.paths):
                        base = f"NodeBuilder.build:{sid}:p{i}"
                        if kshape in ("empty", "none"):
                            ok = p.kind == "exc" and isinstance(p.value, ValueError)
                            obs.append(simple_ob(base + ":EXC", NB, "EXC", f"{op} without children raises ValueError (an empty group is an error)",
                                                 ok, ["C17", "C03"], detail=repr(p.value), witness=repr(type(p.value).__name__)))
                            continue
                        if p.kind != "ret":
                            obs.append(simple_ob(base + ":EXC", NB, "EXC", "no exception", False, props, detail=repr(p.value),
                                                 witness=type(p.value).__name__))
                            continue
                        res = p.value
                        okc = type(res).__name__ == cls
                        obs.append(simple_ob(base + ":POST-CLASS", NB, "POST", f"{op} in context {cname} is typed {cls}", okc, props,
                                             detail=type(res).__name__, witness=type(res).__name__))
                        ok, why = _check_children(res, kshape, BUILDER_OF_CTX[cname], None if cname == "none" else cname, log)
                        obs.append(simple_ob(base + ":POST-CHILDREN", NB, "POST",
                                             f"children of {op} are built in order, each by {BUILDER_OF_CTX[cname]} in the operator's own context "
                                             f"({LEVEL_OF_CTX[cname]} level)", ok, props + ["C05", "C04", "C06", "C01"], detail=why, witness=why))
                    return obs
                # what a child IS depends on the context it is typed in ($not -> NodeNot / NodeNotOperand, a name -> mnemonic / operand /
                # deref field): the context handed to the children serves every property about those children
                scenario(sid, NB, ["C03", "C17", "C05", "C02", "C04", "C06", "C01"],
                         inlined=["NaryOperatorHandler.handle/_handle_children", "And/Or/AndAnyOrderHandler._build_node",
                                  "build_handler_chain", "get_builder_for_context"],
                         doc="typing of an operator node; recursive builds answered by the contract")(run)


_operator_typing()


def _not_typing():
    for cname in ("none", "MNEMONIC"):
        for k in (0, 1, 2):
            sid = f"typing:$not:{cname}:k{k}"

            def run(cname=cname, k=k, sid=sid):
                ensure()
                levels: Dict[str, str] = {}
                log = BuildLog()

                def fn():
                    log.calls.clear()
                    kids = [untyped(Name(f"x{j}"), cid=f"x{j}") for j in range(1, k + 1)]
                    with patched_build(log, levels):
                        b = getattr(J.ast_builder, BUILDER_OF_CTX[cname])()
                        return b.build(untyped("$not", kids, cid="root"), CTX[cname]())
                run_ = sym_run(fn)
                obs: List[Ob] = []
                for i, p in enumerate(run_.paths):
                    base = f"NodeBuilder.build:{sid}:p{i}"
                    if k != 1:
                        ok = p.kind == "exc" and isinstance(p.value, ValueError)
                        obs.append(simple_ob(base + ":EXC", NB, "EXC", f"$not with {k} arguments raises ValueError", ok, ["C17", "C04"],
                                             detail=repr(p.value), witness=repr(type(p.value).__name__)))
                        continue
                    if p.kind != "ret":
                        obs.append(simple_ob(base + ":EXC", NB, "EXC", "no exception", False, ["C04"], detail=repr(p.value),
                                             witness=type(p.value).__name__))
                        continue
                    want = "NodeNot" if cname == "none" else "NodeNotOperand"
                    obs.append(simple_ob(base + ":POST-CLASS", NB, "POST",
                                         f"$not in context {cname} is typed {want} (consumes one {'instruction' if cname == 'none' else 'operand'})",
                                         type(p.value).__name__ == want, ["C04"], detail=type(p.value).__name__, witness=type(p.value).__name__))
                    ids = [getattr(c, "cid", None) for c in (p.value.children or [])]
                    okc = ids == ["t:x1"] and all(b == BUILDER_OF_CTX[cname] and c == (None if cname == "none" else cname)
                                                  for (b, _cid, c) in log.calls) and len(log.calls) == 1
                    obs.append(simple_ob(base + ":POST-CHILD", NB, "POST",
                                         f"the argument of $not is typed in the same context ({LEVEL_OF_CTX[cname]} level)", okc, ["C04"],
                                         detail=f"{ids} {log.calls}", witness=f"{log.calls}"))
                return obs
            scenario(sid, NB, ["C04", "C17"], inlined=["NotHandler.handle"], doc="typing of $not")(run)


_not_typing()


def _leaf_typing():
    for cname, want in (("none", "PatternNodeMnemonic"), ("MNEMONIC", "PatternNodeOperand"), ("DEREF", "PatternNodeDerefProperty")):
        for kshape in ("none", "k2", "seq"):
            if cname != "none" and kshape != "none":
                continue
            sid = f"typing:leaf:{cname}:{kshape}"

            def run(cname=cname, want=want, kshape=kshape, sid=sid):
                ensure()
                levels: Dict[str, str] = {}
                log = BuildLog()
                mk = dict(kids_shapes())[kshape]

                def fn():
                    log.calls.clear()
                    with patched_build(log, levels):
                        b = getattr(J.ast_builder, BUILDER_OF_CTX[cname])()
                        return b.build(untyped(Name("w"), mk(), cid="root"), CTX[cname]())
                run_ = sym_run(fn)
                obs: List[Ob] = []
                props = ["C01", "C03"]
                for i, p in enumerate(run_.paths):
                    base = f"NodeBuilder.build:{sid}:p{i}"
                    if p.kind != "ret":
                        obs.append(simple_ob(base + ":EXC", NB, "EXC", "no exception", False, props, detail=repr(p.value),
                                             witness=type(p.value).__name__))
                        continue
                    obs.append(simple_ob(base + ":POST-CLASS", NB, "POST", f"a literal name in context {cname} is typed {want}",
                                         type(p.value).__name__ == want, props, detail=type(p.value).__name__, witness=type(p.value).__name__))
                    obs.append(simple_ob(base + ":POST-NAME", NB, "POST", "the typed node carries the item's name",
                                         isinstance(p.value.name, Name) and p.value.name.ident == "w", props, detail=repr(p.value.name)))
                    if cname == "none" and kshape != "none":
                        ok, why = _check_children(p.value, kshape, "OperandBuilder", "MNEMONIC", log)
                        obs.append(simple_ob(base + ":POST-CHILDREN", NB, "POST",
                                             "the operand items of a mnemonic are built in order by OperandBuilder in MNEMONIC context (operand level)",
                                             ok, props + ["C05"], detail=why, witness=why))
                return obs
            scenario(sid, NB, ["C01", "C03", "C05"], inlined=["LeafHandler.handle", "MnemonicHandler.handle/_handle_children",
                                                               "OperandHandler.handle", "DerefPropertyHandler.handle"],
                     doc="typing of a leaf item")(run)


_leaf_typing()


def _leaf_concrete_names():
    """item names that merely LOOK like operator names (x86 mnemonics `and`, `or`, `not`; fragments of `$and_any_order`, `$deref`)
    are ordinary items: operators are recognised by their exact name only"""
    names = ["and", "or", "not", "deref", "any_order", "and_any_order", "an", "$an", "d", "nd", "xor", "andn", "$"]
    for cname, want in (("none", "PatternNodeMnemonic"), ("MNEMONIC", "PatternNodeOperand"), ("DEREF", "PatternNodeDerefProperty")):
        sid = f"typing:leaf-concrete:{cname}"

        def run(cname=cname, want=want, sid=sid):
            ensure()
            obs: List[Ob] = []
            for nm in names:
                for with_ops in ((False, True) if cname == "none" else (False,)):
                    levels: Dict[str, str] = {}
                    log = BuildLog()
                    try:
                        with patched_build(log, levels):
                            b = getattr(J.ast_builder, BUILDER_OF_CTX[cname])()
                            kids = [untyped("%eax", cid="o1"), untyped("%ebx", cid="o2")] if with_ops else None
                            r = b.build(untyped(nm, kids, cid="root"), CTX[cname]())
                        got = type(r).__name__
                        ok = got == want and r.name == nm
                    except Exception as e:     # noqa
                        got, ok = repr(e), False
                    obs.append(simple_ob(f"NodeBuilder.build:{sid}:{nm}:ops={int(with_ops)}:POST-CLASS", NB, "POST",
                                         f"an item named {nm!r} in context {cname} is typed {want} (it is not an operator)", ok, ["C03", "C01"],
                                         detail=got, witness=f"{nm} -> {got}"))
            return obs
        scenario(sid, NB, ["C03", "C01"], inlined=["handler chain dispatch on the item name"], doc="operator look-alike names are leaves")(run)


_leaf_concrete_names()


def _capture_leaf_typing():
    """capture names as leaves of an operand list (MNEMONIC context) and of a $deref field (DEREF context), first and later
    occurrence: an operand-level capture closes its field with ',', the same capture inside a $deref field does not (the field is
    followed by + * ] there) -- the REAL builders on a real capture table, no stub"""
    names = ["&x", "&genreg", "&genreg.64", "&indreg.32", "&stackreg.16", "&basereg.8L", "&genreg-1.8H"]
    for cname in ("MNEMONIC", "DEREF"):
        sid = f"typing:capture-leaf:{cname}"

        def run(cname=cname, sid=sid):
            ensure()
            obs: List[Ob] = []
            for nm in names:
                for later in (False, True):
                    if later and nm.startswith(("&genreg", "&indreg", "&stackreg", "&basereg")) and "." not in nm:
                        continue          # a later occurrence without width suffix is rejected (scope decision, 12.3)
                    try:
                        sc = J.sc.SharedContext(capture_manager=J.cm.CapturesManager())
                        b = getattr(J.ast_builder, BUILDER_OF_CTX[cname])()
                        if later:
                            b.build(untyped(nm, None, cid="first", sc=sc), CTX[cname]())
                        r = b.build(untyped(nm, None, cid="root", sc=sc), CTX[cname]())
                        rx_ = r.get_regex()
                        closes = rx_.endswith(",")
                        ok = closes == (cname == "MNEMONIC") and ("(" in rx_) == (not later) and (("\\1" in rx_) == later)
                        got = f"{type(r).__name__} {rx_!r}"
                    except Exception as e:     # noqa
                        ok, got = False, repr(e)
                    obs.append(simple_ob(f"NodeBuilder.build:{sid}:{nm}:later={int(later)}:POST", NB, "POST",
                                         f"capture {nm!r} ({'later' if later else 'first'} occurrence) in context {cname}: "
                                         + ("closes its operand field with ','" if cname == "MNEMONIC" else "does not emit a field separator inside the bracket")
                                         + (", a back-reference to group 1" if later else ", exactly one capturing group"),
                                         ok, ["C05", "C06", "C03"], detail=got, witness=f"{nm} -> {got[:100]}"))
            return obs
        scenario(sid, NB, ["C05", "C06", "C03"], inlined=["SpecialRegisterCaptureGroupHandler.handle", "OperandCaptureGroupHandler", "DerefOperandCaptureGroupHandler",
                                                        "capture group builders", "*Reference / *Call .get_regex"],
                 doc="capture names as operand / $deref-field leaves: field separator only at operand level")(run)


_capture_leaf_typing()


# --------------------------------------------------------------------------- $deref typing
def _deref_typing():
    EMIT = ["main_reg", "register_multiplier", "constant_multiplier", "constant_offset"]      # [a+b*c+k]
    sets = [("a", ["main_reg"]), ("ak", ["main_reg", "constant_offset"]), ("abc", EMIT[:3]), ("abck", EMIT),
            ("ab", EMIT[:2]), ("abk", ["main_reg", "register_multiplier", "constant_offset"])]
    for sname, fields in sets:
        sid = f"typing:$deref:{sname}"

        def run(sname=sname, fields=fields, sid=sid):
            ensure()
            import itertools
            obs: List[Ob] = []
            props = ["C06", "C05", "C03"]
            for cname in ("MNEMONIC",):
                for perm, zero in [(pm, z) for pm in itertools.permutations(fields) for z in (False, True)
                                   if not z or any(f.startswith("constant") for f in fields)]:
                    levels: Dict[str, str] = {}
                    log = BuildLog()
                    holder: Dict[str, Any] = {}

                    def fn(perm=perm, zero=zero):
                        log.calls.clear()
                        # zero: the numeric fields hold the YAML integer 0 (what an unquoted 0 / 0x0 loads as) -- a value like any other
                        kids = [untyped(f, [untyped(0 if (zero and f.startswith("constant")) else Name("v_" + f), cid="v_" + f)], cid=f) for f in perm]
                        holder["ctx"] = CTX[cname]()
                        with patched_build(log, levels):
                            b = getattr(J.ast_builder, BUILDER_OF_CTX[cname])()
                            return b.build(untyped("$deref", kids, cid="root"), holder["ctx"])
                    run_ = sym_run(fn)
                    for i, p in enumerate(run_.paths):
                        base = f"NodeBuilder.build:{sid}:{'-'.join(x[:1] + x.split('_')[-1][:1] for x in perm)}{':zero' if zero else ''}:p{i}"
                        if p.kind != "ret":
                            obs.append(simple_ob(base + ":EXC", NB, "EXC", "no exception", False, props, detail=repr(p.value), witness=type(p.value).__name__))
                            continue
                        res = p.value
                        want = [f for f in EMIT if f in fields]
                        kids = res.children or []
                        okc = type(res).__name__ == "PatternNodeDeref" and [type(k).__name__ for k in kids] == ["PatternNodeDerefProperty"] * len(want) \
                            and [str(k.name) for k in kids] == want
                        obs.append(simple_ob(base + ":POST-FIELDS", NB, "POST",
                                             "$deref is typed PatternNodeDeref; its fields are PatternNodeDerefProperty nodes in the order the regex emits them "
                                             "(main_reg, register_multiplier, constant_multiplier, constant_offset), whatever order they were written in",
                                             okc, props, detail=repr([(type(k).__name__, str(k.name)) for k in kids]), witness=repr(perm)))
                        calls = list(log.calls)
                        okb = [c[1] for c in calls] == ["v_" + f for f in want] and all(c[0] == "DerefChildrenBuilder" and c[2] == "DEREF" for c in calls)
                        obs.append(simple_ob(base + ":POST-VALUES", NB, "POST",
                                             "the field values are built once each, in emission order (= capture registration order), by DerefChildrenBuilder "
                                             "in DEREF context", okb, props, detail=repr(calls), witness=repr(perm)))
                        c = holder["ctx"]
                        obs.append(simple_ob(base + ":FRAME-context", NB, "FRAME",
                                             "the caller's build context is not modified (later siblings of the $deref are typed in the operator's own context)",
                                             c.ancester_type.name == cname, ["C03", "C06", "C05"], detail=c.ancester_type.name, witness=c.ancester_type.name))
            return obs
        scenario(sid, NB, ["C06", "C05", "C03"], inlined=["DerefHandler.handle/_handle_children/_build_grandchildren/_field_position"],
                 doc="typing of a $deref item: field order, value builders, caller context untouched")(run)


_deref_typing()
