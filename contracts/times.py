"""C02 / C17: extraction of `times` from either YAML spelling
(PatternNodeBuilderNoParents._get_times with its nested _get_time_object) and its rendering
(TimesTypeBuilder.get_min_max_regex).  Integers are symbolic (mathematical, as in Python)."""
from __future__ import annotations

from typing import Any, Dict, List

import z3

from vf import pyvc, rx
from vf.core import Ob, PROVED, REFUTED, UNDECIDED, scenario, simple_ob, sym_run, z3_ob
from vf.jasmrt import J, ensure

GT = "jasm.jasm_regex.tree_generators.pattern_node_builder.PatternNodeBuilderNoParents._get_times"
MM = "jasm.jasm_regex.tree_generators.pattern_node_implementations.time_type_builder.TimesTypeBuilder.get_min_max_regex"


def _shapes():
    """(id, builder(n,a,b) -> yaml item, expected (min,max) as z3 terms, validity condition)"""
    n, a, b = z3.Int("n"), z3.Int("a"), z3.Int("b")
    one = z3.IntVal(1)
    ops = ["rax", "rbx"]
    for where in ("body", "sibling"):
        def mk(tv, where=where):
            if where == "body":
                return {"call": {"times": tv}}
            return {"call": list(ops), "times": tv}
        yield f"{where}:int", (lambda N, A, B, mk=mk: mk(N)), (n, n), n >= 0
        yield f"{where}:minmax", (lambda N, A, B, mk=mk: mk({"min": A, "max": B})), (a, b), z3.And(a >= 0, a <= b)
        yield f"{where}:maxmin", (lambda N, A, B, mk=mk: mk({"max": B, "min": A})), (a, b), z3.And(a >= 0, a <= b)
        yield f"{where}:min", (lambda N, A, B, mk=mk: mk({"min": A})), (a, one), z3.And(a >= 0, a <= 1)
        yield f"{where}:max", (lambda N, A, B, mk=mk: mk({"max": B})), (one, b), b >= 1
    yield "none:list", (lambda N, A, B: {"call": list(ops)}), (one, one), z3.BoolVal(True)
    yield "none:otherkey", (lambda N, A, B: {"call": {"foo": 3}}), (one, one), z3.BoolVal(True)


@scenario("times:_get_times", GT, ["C02", "C17"], inlined=["_get_time_object", "TimesType.__init__"],
          doc="all YAML shapes of a times clause, symbolic integers")
def get_times():
    ensure()
    obs: List[Ob] = []
    for sid, mk, (emin, emax), valid in _shapes():
        def fn(mk=mk):
            N, A, B = pyvc.sym_int("n"), pyvc.sym_int("a"), pyvc.sym_int("b")
            return J.builder.PatternNodeBuilderNoParents._get_times(mk(N, A, B))
        run = sym_run(fn)
        rp = {"kind": "times", "shape": sid}
        for i, p in enumerate(run.paths):
            base = f"_get_times:{sid}:p{i}"
            if p.kind == "ret":
                t = p.value
                tmin = t._min_times.t if isinstance(t._min_times, pyvc.SymInt) else z3.IntVal(int(t._min_times))
                tmax = t._max_times.t if isinstance(t._max_times, pyvc.SymInt) else z3.IntVal(int(t._max_times))
                obs.append(z3_ob(base + ":POST", GT, "POST",
                                 f"[{sid}] returns TimesType(min,max) = ({emin},{emax})", p.pc,
                                 z3.And(tmin == emin, tmax == emax), ["C02"], rp))
                obs.append(z3_ob(base + ":EXC-VALID", GT, "EXC",
                                 f"[{sid}] returns normally only for bounds with {valid} (negative / inverted bounds raise)",
                                 p.pc, valid, ["C17", "C02"], rp))
            else:
                ok = isinstance(p.value, ValueError)
                obs.append(simple_ob(base + ":EXC-TYPE", GT, "EXC", f"[{sid}] the only exception is ValueError", ok, ["C17", "C02"],
                                     detail=f"{type(p.value).__name__}: {p.value}", witness=type(p.value).__name__, replay=rp))
                obs.append(z3_ob(base + ":EXC-ONLY-INVALID", GT, "EXC",
                                 f"[{sid}] raises only when the bounds violate {valid}", p.pc, z3.Not(valid), ["C02", "C17"], rp))
    return obs


@scenario("times:get_min_max_regex", MM, ["C02"], doc="(min,max) -> quantifier text")
def min_max_regex():
    ensure()
    obs: List[Ob] = []

    def fn():
        m, n = pyvc.sym_int("m"), pyvc.sym_int("n")
        pyvc.assume(z3.And(m.t >= 0, m.t <= n.t))
        return J.times.TimesTypeBuilder().get_min_max_regex(J.gd.TimesType(m, n))
    run = sym_run(fn)
    m, n = z3.Int("m"), z3.Int("n")
    for i, p in enumerate(run.paths):
        base = f"get_min_max_regex:p{i}"
        if p.kind != "ret":
            obs.append(simple_ob(base + ":EXC", MM, "EXC", "no exception for 0<=min<=max", False, ["C02"], detail=repr(p.value)))
            continue
        if p.value is None:
            obs.append(z3_ob(base + ":POST-NONE", MM, "POST", "returns None only for (min,max) = (1,1)", p.pc,
                             z3.And(m == 1, n == 1), ["C02"]))
            continue
        obs.append(z3_ob(base + ":POST-SOME", MM, "POST", "returns a quantifier for every (min,max) != (1,1)", p.pc,
                         z3.Not(z3.And(m == 1, n == 1)), ["C02"]))
        # the text, appended to an atom, must parse as exactly the quantifier {min,max}
        tb = run.ctx.table
        try:
            pr = rx.parse("x" + p.value, tb)
            top = pr.ast
            ok = isinstance(top, rx.Rep)
            if ok:
                lo = top.lo.term if isinstance(top.lo, rx.SymBound) else z3.IntVal(top.lo)
                hi = top.hi.term if isinstance(top.hi, rx.SymBound) else z3.IntVal(top.hi)
                obs.append(z3_ob(base + ":POST-QUANT", MM, "POST",
                                 f"text {tb.show(p.value)} is the quantifier with bounds exactly (min,max)", p.pc,
                                 z3.And(lo == m, hi == n), ["C02"]))
            else:
                obs.append(simple_ob(base + ":POST-QUANT", MM, "POST", f"text {tb.show(p.value)} is a quantifier", False, ["C02"],
                                     detail="does not parse as a quantifier", witness="not-a-quantifier"))
        except (rx.RxSyntax, rx.Unsupported) as e:
            obs.append(simple_ob(base + ":POST-QUANT", MM, "POST", "text is a quantifier", False, ["C02"], detail=str(e),
                                 witness="syntax"))
    return obs
