"""C20: the `jasm` command reports what the library computes.
parse_args_from_console over every combination of the options; main(): Namespace -> MatchConfig
plumbing with opaque argument values; one perform_matching call outside any try (a failure
propagates -> non-zero exit status, assumed CPython behaviour); logger configuration; the log
records themselves are proved in contracts/driver.py (obligations tagged C20)."""
from __future__ import annotations

import ast
import itertools
import os
import sys
from argparse import Namespace
from typing import Any, Dict, List

from vf.core import Ob, scenario, simple_ob, sym_run
from vf import instrument
from vf.instrument import repo_root
from vf.jasmrt import J, ensure
from vf.pyvc import Name

PA = "jasm.parse_arguments.parse_args_from_console"
MN = "jasm.main.main"
P = ["C20"]


@scenario("cli:argparse", PA, P, doc="all combinations of the command-line options (exhaustive over option presence)")
def argparse_combos():
    ensure()
    obs: List[Ob] = []
    old = sys.argv
    n = 0
    try:
        for inp in ("-s", "-b", "--assembly", "--binary", None, "both"):
            for pat in (True, False):
                for allm in (False, True):
                    for only in (False, True):
                        for macros in ([], ["m1.yaml"], ["z_site.yaml", "a_base.yaml"], ["m2.yaml", "m1.yaml", "m2.yaml"]):     # given order, not sorted, repeats kept
                            argv = ["jasm"]
                            if pat:
                                argv += ["-p", "rule.yaml"]
                            if inp == "both":
                                argv += ["-s", "in.s", "-b", "in.bin"]
                            elif inp:
                                argv += [inp, "in.file"]
                            if allm:
                                argv += ["--all-matches"]
                            if only:
                                argv += ["--return_only_address"]
                            if macros:
                                argv += ["--macros"] + macros
                            sys.argv = argv
                            n += 1
                            try:
                                devnull = open(os.devnull, "w")
                                olderr, sys.stderr = sys.stderr, devnull
                                try:
                                    ns = J.pargs.parse_args_from_console()
                                finally:
                                    sys.stderr = olderr
                                    devnull.close()
                                outcome: Any = ns
                            except SystemExit as e:
                                outcome = ("exit", e.code)
                            valid = pat and inp not in (None, "both")
                            if not valid:
                                ok = isinstance(outcome, tuple) and outcome[1] not in (0, None)
                                st = "a command line without -p, or without exactly one of -s/-b, is rejected with a non-zero status"
                            else:
                                is_s = inp in ("-s", "--assembly")
                                g = lambda a_: getattr(outcome, a_, "<absent>")       # a missing attribute fails the obligation
                                ok = isinstance(outcome, Namespace) and g("pattern") == "rule.yaml" \
                                    and g("assembly") == ("in.file" if is_s else None) and g("binary") == (None if is_s else "in.file") \
                                    and g("all_matches") is allm and g("return_only_address") is only \
                                    and (g("macros") == macros if macros else g("macros") is None) \
                                    and g("info") is True and g("enable_logging_to_terminal") is True
                                st = "options are parsed into pattern / assembly|binary / all_matches / return_only_address / macros (in order)"
                            obs.append(simple_ob(f"parse_args:{' '.join(argv[1:]) or 'none'}", PA, "POST", st, ok, P, detail=repr(outcome), witness=" ".join(argv)))
        # the VALUES are paths: whatever characters they start with or contain (other than a leading '-'), they arrive as given --
        # nothing is expanded, looked up or split ('@' is how macro names and scoped directories are spelled)
        for vid, (rule, inp_v, macro_vs) in {
                "at-prefix": ("@team/rule.yaml", "@in.s", ["@prologue.yaml", "lib.yaml"]),
                "plus-prefix": ("+rule.yaml", "+in.s", ["+m.yaml"]),
                "blank-inside": ("my rules/rule 1.yaml", "dump of a.s", ["macro lib/m 1.yaml"]),
                "equals-comma": ("a=b,c.yaml", "x=y.s", ["k=v.yaml", "a,b.yaml"]),
                "tilde-glob": ("~/r*.yaml", "~user/?.s", ["*.yaml"]),
                "unicode": ("régle.yaml", "列表.s", ["макро.yaml"])}.items():
            for flag in ("-s", "-b"):
                argv = ["jasm", "-p", rule, flag, inp_v, "--macros"] + macro_vs
                sys.argv = argv
                try:
                    devnull = open(os.devnull, "w")
                    olderr, sys.stderr = sys.stderr, devnull
                    try:
                        ns = J.pargs.parse_args_from_console()
                    finally:
                        sys.stderr = olderr
                        devnull.close()
                    outcome = ns
                except SystemExit as e:
                    outcome = ("exit", e.code)
                except Exception as e:     # noqa
                    outcome = ("raised", repr(e))
                g = lambda a_: getattr(outcome, a_, "<absent>")
                ok = isinstance(outcome, Namespace) and g("pattern") == rule and g("macros") == macro_vs \
                    and g("assembly") == (inp_v if flag == "-s" else None) and g("binary") == (None if flag == "-s" else inp_v)
                obs.append(simple_ob(f"parse_args:values:{vid}:{flag}", PA, "POST",
                                     f"[{vid}] option values are taken literally (pattern, input and macro paths exactly as typed, in order)",
                                     ok, P, detail=repr(outcome)[:300], witness=" ".join(argv)))
    finally:
        sys.argv = old
    return obs


class Recorder:
    instances: List[Any] = []

    def __init__(self, match_config):
        self.match_config = match_config
        self.calls = 0
        Recorder.instances.append(self)

    def perform_matching(self):
        self.calls += 1
        return True


@scenario("cli:main", MN, P, inlined=["decide_assembly_or_binary"], doc="Namespace -> MatchConfig -> MasterOfPuppets.perform_matching (once)")
def main_plumbing():
    ensure()
    obs: List[Ob] = []
    for route in ("assembly", "binary"):
        for allm in (False, True):
            for only in (False, True):
                for macros in (None, "two"):
                    def fn():
                        Recorder.instances = []
                        ns = Namespace(pattern=Name("pattern"), assembly=Name("input") if route == "assembly" else None,
                                       binary=Name("input") if route == "binary" else None, all_matches=allm, return_only_address=only,
                                       macros=[Name("m1"), Name("m2")] if macros else None, debug=False, info=True,
                                       enable_logging_to_file=False, enable_logging_to_terminal=True)
                        m = J.main
                        o_sc, o_mp, o_print = m.start_configurations, m.MasterOfPuppets, getattr(m, "print", None)
                        m.start_configurations = lambda *a_, **k_: ns
                        m.MasterOfPuppets = Recorder
                        m.print = lambda *a, **k: None
                        try:
                            m.main()
                        finally:
                            m.start_configurations, m.MasterOfPuppets = o_sc, o_mp
                            if o_print is None:
                                del m.print
                        return list(Recorder.instances)
                    run = sym_run(fn)
                    for i, p in enumerate(run.paths):
                        base = f"main:{route}:all={int(allm)}:only={int(only)}:macros={macros}:p{i}"
                        if p.kind != "ret":
                            obs.append(simple_ob(base + ":EXC", MN, "EXC", "no exception", False, P, detail=repr(p.value), witness="exc"))
                            continue
                        inst = p.value
                        ok = len(inst) == 1 and inst[0].calls == 1
                        obs.append(simple_ob(base + ":POST-once", MN, "POST", "exactly one MasterOfPuppets is built and perform_matching is called once",
                                             ok, P, detail=repr(inst), witness=str(len(inst))))
                        if len(inst) == 1:
                            c = inst[0].match_config
                            gd = J.gd
                            okc = getattr(c.pattern_pathstr, "ident", None) == "pattern" and getattr(c.input_file, "ident", None) == "input" \
                                and c.input_file_type == (gd.InputFileType.assembly if route == "assembly" else gd.InputFileType.binary) \
                                and c.matching_mode == (gd.MatchingSearchMode.all_finds if allm else gd.MatchingSearchMode.first_find) \
                                and c.return_only_address is only \
                                and ([getattr(x, "ident", None) for x in c.macros] == ["m1", "m2"] if macros else c.macros is None)
                            obs.append(simple_ob(base + ":POST-config", MN, "POST",
                                                 "MatchConfig = (pattern, the given input, its type, all_finds iff --all-matches, return_only_address, macros in order)",
                                                 okc, P, detail=repr(c), witness=repr(c)[:80]))
    # neither input -> error
    def fn2():
        ns = Namespace(pattern="p", assembly=None, binary=None, all_matches=False, return_only_address=False, macros=None)
        m = J.main
        o_sc = m.start_configurations
        m.start_configurations = lambda *a_, **k_: ns
        m.print = lambda *a, **k: None
        try:
            m.main()
        finally:
            m.start_configurations = o_sc
            del m.print
    run = sym_run(fn2)
    for i, p in enumerate(run.paths):
        obs.append(simple_ob(f"main:no-input:p{i}:EXC", MN, "EXC", "without an input file main raises", p.kind == "exc", P, detail=repr(p.value), witness="noinput"))
    return obs


@scenario("cli:no-try", MN, ["C20", "C17"], doc="main and perform_matching do not catch: a failing operation ends the process with a non-zero status")
def no_try():
    obs: List[Ob] = []
    for rel, fns in (("src/jasm/main.py", ["main", "start_configurations", "decide_assembly_or_binary"]),
                     ("src/jasm/match.py", ["perform_matching", "_do_matching_and_get_result", "__init__", "prepare_observers"])):
        tree = instrument.parse_file(os.path.join(repo_root(), rel))
        for fn in ast.walk(tree):
            if isinstance(fn, ast.FunctionDef) and fn.name in fns:
                has_try = any(isinstance(n, ast.Try) for n in ast.walk(fn))
                obs.append(simple_ob(f"no-try:{rel}:{fn.name}:L{fn.lineno}", f"{rel}:{fn.name}", "EXC",
                                     f"{fn.name} contains no try statement (exceptions of the operation propagate to the interpreter)",
                                     True if not has_try else None, ["C20", "C17"],
                                     detail="a try statement was introduced on the path from the operation to the process exit"))
    src = open(os.path.join(repo_root(), "src/jasm/main.py")).read()
    tree = ast.parse(src)
    calls_main = any(isinstance(n, ast.If) and "__main__" in ast.unparse(n.test) and "main()" in ast.unparse(n) for n in tree.body)
    obs.append(simple_ob("no-try:entry", "src/jasm/main.py", "POST", "`python -m jasm.main` calls main()", calls_main, P, witness="entry"))
    py = open(os.path.join(repo_root(), "pyproject.toml")).read()
    obs.append(simple_ob("no-try:console-script", "pyproject.toml", "POST", "the `jasm` console script is jasm.main:main",
                         'jasm = "jasm.main:main"' in py, P, witness="script"))
    return obs


@scenario("cli:logger", "jasm.logging_config.configure_logger", P, inlined=["_set_log_to_terminal", "start_configurations"],
          doc="default options: logger at INFO with a terminal handler that lets INFO records through")
def logger_cfg():
    ensure()
    import logging
    obs: List[Ob] = []
    lg = J.logcfg.logger
    old_handlers, old_level = list(lg.handlers), lg.level
    try:
        for debug in (False, True):
            lg.handlers[:] = []
            lg.setLevel(logging.WARNING)
            J.logcfg.configure_logger(debug=debug, info=True, enable_log_to_file=False, enable_log_to_terminal=True)
            hs = [h for h in lg.handlers if isinstance(h, logging.StreamHandler)]
            oks = []
            for msg in ("RESULT: Pattern found\n", "RESULT: Pattern not found\n", "Matched address: 401000\n"):
                rec = logging.LogRecord(lg.name, logging.INFO, "x", 1, msg, (), None)
                passing = [h for h in hs if h.level <= logging.INFO and h.filter(rec)]
                oks.append(lg.isEnabledFor(logging.INFO) and bool(lg.filter(rec)) and len(passing) == 1)
            want_level = logging.DEBUG if debug else logging.INFO
            ok = lg.level == want_level and len(hs) == 1 and all(oks)
            obs.append(simple_ob(f"configure_logger:debug={int(debug)}:POST", "jasm.logging_config.configure_logger", "POST",
                                 "with or without --debug the INFO records ('Matched address', 'RESULT') reach exactly one terminal handler",
                                 bool(ok), P, detail=f"level={lg.level} handlers={[(h, h.level, h.filters) for h in lg.handlers]}", witness=f"debug={debug}"))
            # a sequence of records, with consecutive repetitions (matches at the same address in different sections, the same
            # text twice): every record is written, in order -- the terminal output is the list the API returns
            import io
            buf = io.StringIO()
            for h in hs:
                h.setStream(buf)
            seq = [("Matched address: %s", ("0",)), ("Matched address: %s", ("0",)), ("Matched address: %s", ("401000",)),
                   ("Matched address: %s", ("0::push,%rbp,|",)), ("Matched address: %s", ("0::push,%rbp,|",)), ("RESULT: Pattern found\n", ())]
            old_disable = logging.root.manager.disable
            logging.disable(logging.NOTSET)
            try:
                for msg, args in seq:
                    lg.handle(logging.LogRecord(lg.name, logging.INFO, "x", 1, msg, args, None))
            finally:
                logging.disable(old_disable)
            written = [ln.split(" - INFO - ", 1)[-1] for ln in buf.getvalue().split("\n") if "Matched address" in ln or "RESULT" in ln]
            want = [m_ % a_ if a_ else m_.strip() for m_, a_ in seq]
            obs.append(simple_ob(f"configure_logger:debug={int(debug)}:POST-sequence", "jasm.logging_config.configure_logger", "POST",
                                 "every INFO record of a run is written to the terminal, in order, repeated ones included (one line per matched address)",
                                 [w.split("Matched address: ")[-1] if "Matched" in w else w for w in written] ==
                                 [w.split("Matched address: ")[-1] if "Matched" in w else w for w in want], P,
                                 detail=f"written={written} want={want}", witness=repr(written)[:120]))
        # the CLI defaults are info=True / terminal=True
        calls = []
        m = J.main
        o_pa, o_cl = m.parse_args_from_console, m.configure_logger
        m.parse_args_from_console = lambda *a_, **k_: Namespace(debug=False, info=True, enable_logging_to_file=True, enable_logging_to_terminal=True)
        m.configure_logger = lambda *a_, **kw: calls.append(kw)
        try:
            m.start_configurations()
        finally:
            m.parse_args_from_console, m.configure_logger = o_pa, o_cl
        okc = calls == [{"debug": False, "info": True, "enable_log_to_file": True, "enable_log_to_terminal": True}]
        obs.append(simple_ob("start_configurations:POST", "jasm.main.start_configurations", "POST",
                             "the parsed logging options are handed to configure_logger unchanged", okc, P, detail=repr(calls), witness=repr(calls)))
    finally:
        lg.handlers[:] = old_handlers
        lg.setLevel(old_level)
    return obs
