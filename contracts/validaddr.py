"""C18: valid_addr_range.  ValidAddrObserver.observe_instruction / ValidAddrRange.is_in_range /
HexType over symbolic hexadecimal texts (value = uninterpreted hexval, `0x` stripping executed),
MasterOfPuppets.prepare_observers, JASMConfig._load_valid_addr_range."""
from __future__ import annotations

from typing import Any, Dict, List

import z3

from vf import pyvc
from vf.core import Ob, PROVED, scenario, simple_ob, sym_run, z3_ob, z3_valid
from vf.jasmrt import J, ensure
from vf.pyvc import HexStr, Name, StarOperand

VO = "jasm.match.ValidAddrObserver.observe_instruction"
P = ["C18"]
BRANCHES = ["call", "callq", "jmp", "jmpq", "jne", "je", "jg", "jge", "jl", "jle", "jz", "jnz", "ja", "jb"]
MUST_TAG = {"call", "jmp"}          # the statement: every direct call or jmp
NON_BRANCH = ["mov", "lea", "push", "nop"]


def hv(ident):
    return z3.Int("hexval!" + ident)


PKEEP = ["C18", "C07", "C08", "C10"]      # the observer never drops or re-addresses an instruction: the stream stays the input's sequence


@scenario("validaddr:observe", VO, PKEEP + ["C09"], inlined=["ValidAddrRange.__init__/is_in_range", "HexType.__init__"],
          doc="tagging decision over symbolic hexadecimal bounds and targets")
def observe():
    ensure()
    obs: List[Ob] = []
    mnems = [(m, m) for m in BRANCHES + NON_BRANCH] + [("other", None)]
    for mname, mval in mnems:
        for opcat in ("hex", "hex0x", "star", "none", "two", "name"):
            for lo0x in (False, True):
                for hi0x in (False, True):
                    if (mname not in ("call", "jmp", "jne", "mov", "other")) and (lo0x or hi0x or opcat in ("none", "two")):
                        continue      # the bound spellings are explored with representative mnemonics
                    sid = f"{mname}:{opcat}:lo0x={int(lo0x)}:hi0x={int(hi0x)}"

                    def fn():
                        rng = J.gd.ValidAddrRange(min_addr=HexStr("lo", lo0x), max_addr=HexStr("hi", hi0x))
                        o = J.match.ValidAddrObserver(rng)
                        mn = mval if mval is not None else Name("mn")
                        if opcat == "hex":
                            ops = [HexStr("t", False)]
                        elif opcat == "hex0x":
                            ops = [HexStr("t", True)]
                        elif opcat == "star":
                            ops = [StarOperand("t")]
                        elif opcat == "two":
                            ops = [HexStr("t", False), Name("op2")]
                        elif opcat == "name":
                            # an operand that is neither hexadecimal nor an indirection (a register / symbol of another syntax):
                            # whatever the observer makes of it -- unchanged, or a loud error -- the instruction is never dropped
                            ops = [Name("sym")]
                        else:
                            ops = []
                        inst = J.gd.Instruction(addr=Name("a"), mnemonic=mn, operands=ops)
                        return [o.observe_instruction(inst), inst]
                    run = sym_run(fn)
                    inrange = z3.And(hv("lo") <= hv("t"), hv("t") <= hv("hi"))
                    for i, p in enumerate(run.paths):
                        base = f"observe_instruction:{sid}:p{i}"
                        if p.kind != "ret":
                            loud = opcat == "name" and isinstance(p.value, ValueError)
                            obs.append(simple_ob(base + ":EXC", VO, "EXC", "no exception (a branch operand that is not a number may be "
                                                 "rejected with ValueError)", loud, PKEEP + ["C09"], detail=repr(p.value), witness=sid))
                            continue
                        res, inst = p.value
                        if res is None or not isinstance(res, J.gd.Instruction):
                            obs.append(simple_ob(base + ":POST-keeps", VO, "POST", "the observer answers with an instruction (it never drops one)",
                                                 False, PKEEP, detail=repr(res), witness=sid))
                            continue
                        tagged = res is not inst
                        direct = opcat in ("hex", "hex0x", "two")
                        if tagged:
                            okshape = (list(res.operands) == ["valid_addr"] and res.addr is inst.addr and res.mnemonic is inst.mnemonic)
                            obs.append(simple_ob(base + ":POST-shape", VO, "POST",
                                                 "a tagged instruction keeps address and mnemonic, its operand list is ['valid_addr']",
                                                 okshape, PKEEP, detail=repr(res), witness=sid))
                            is_branch = isinstance(mval, str) and (mval.startswith("call") or mval.startswith("j"))
                            obs.append(simple_ob(base + ":POST-only-branches", VO, "POST",
                                                 "only a direct branch (call*/j* with a hexadecimal target, no '*') is ever tagged",
                                                 is_branch and direct, P + ["C09"], detail=f"{mname} {opcat}", witness=sid))
                            obs.append(z3_ob(base + ":POST-only-in-range", VO, "POST",
                                             "tagged only if hexval(min) <= hexval(target) <= hexval(max)", p.pc, inrange, P))
                        else:
                            obs.append(simple_ob(base + ":POST-untouched", VO, "POST", "an untagged instruction is returned unchanged (same object, same operands)",
                                                 res is inst and len(res.operands) == {"none": 0, "two": 2}.get(opcat, 1), PKEEP, detail=repr(res), witness=sid))
                            if mname in MUST_TAG and direct:
                                obs.append(z3_ob(base + ":POST-must-tag", VO, "POST",
                                                 f"a direct {mname} is left untagged only if its target is outside [min,max] (both bounds inclusive)",
                                                 p.pc, z3.Not(inrange), P))
    return obs


@scenario("validaddr:hextype", "jasm.global_definitions.HexType.__init__", ["C18", "C17"], doc="0x prefix stripped, value = hexval of the digits")
def hextype():
    ensure()
    obs: List[Ob] = []
    for w in (False, True):
        run = sym_run(lambda: J.gd.HexType(HexStr("x", w)).hex)
        for i, p in enumerate(run.paths):
            ok = p.kind == "ret" and isinstance(p.value, pyvc.SymInt) and str(p.value.t) == "hexval!x"
            obs.append(simple_ob(f"HexType:0x={int(w)}:p{i}:POST", "jasm.global_definitions.HexType.__init__", "POST",
                                 "HexType(s).hex = value of the hexadecimal digits of s, with or without the 0x prefix", ok, P,
                                 detail=repr(p.value), witness=str(w)))
    # a bound that is not text (an unquoted 0x401000 loads as the integer 4198400, a missing bound as None) is rejected, never
    # re-interpreted: the digits of str(4198400) read as hexadecimal are a different address
    for bad in (4198400, 0, None, 1.5, ["0x10"], True):
        try:
            v_ = J.gd.HexType(bad).hex
            ok, det = False, f"accepted, value {v_!r}"
        except Exception as e:   # noqa
            ok, det = True, type(e).__name__
        obs.append(simple_ob(f"HexType:non-text:{bad!r}:EXC", "jasm.global_definitions.HexType.__init__", "EXC",
                             f"HexType({bad!r}) raises (a wrongly-typed address bound is an error)", ok, ["C17", "C18"], detail=det, witness=repr(bad),
                             replay={"kind": "call", "target": "jasm.global_definitions:HexType", "args": [bad], "expect": "<raises>"}))
    return obs


@scenario("validaddr:install", "jasm.match.MasterOfPuppets.prepare_observers", ["C18", "C14"],
          inlined=["ObserverBuilder.get_instruction_observers", "JASMConfig._load_valid_addr_range", "JASMConfig.get_info"],
          doc="the observer is installed iff the rule configures a range; the range is reset otherwise")
def install():
    ensure()
    obs: List[Ob] = []
    for has in (False, True):
        for stale in (False, True):
            cfg = J.gd.JASMConfig()
            if stale:
                cfg.load_config({"valid_addr_range": {"min": "10", "max": "20"}})
            conf = {"valid_addr_range": {"min": "0x100", "max": "1ff"}} if has else {}
            cfg.load_config(conf)
            mop = J.match.MasterOfPuppets.__new__(J.match.MasterOfPuppets)
            mop.global_config = J.gd.JASMConfig()
            lst = mop.prepare_observers()
            names = [type(o).__name__ for o in lst]
            ok = names == (["RemoveEmptyInstructions", "ValidAddrObserver"] if has else ["RemoveEmptyInstructions"])
            if ok and has:
                r = lst[1].addr_range
                ok = r.min.hex == 0x100 and r.max.hex == 0x1ff
            obs.append(simple_ob(f"prepare_observers:range={int(has)}:stale={int(stale)}:POST", "jasm.match.MasterOfPuppets.prepare_observers", "POST",
                                 f"rule {'with' if has else 'without'} valid_addr_range (previous rule {'had' if stale else 'had no'} range): observers = "
                                 f"{'[RemoveEmpty, ValidAddr(range of THIS rule)]' if has else '[RemoveEmpty]'}", ok, ["C18", "C14"],
                                 detail=repr(names), witness=repr(names)))
    # the observer is installed for EVERY configured range: a single address (min == max, in any spelling), a huge one, bounds
    # at 0 -- what the range object looks like (length, truthiness) never decides whether the option is honoured
    for lo, hi in (("0x402000", "402000"), ("402000", "0x402000"), ("0", "0"), ("0x0", "0xffffffffffffffff"), ("0x00401fff", "401fff"),
                   ("1", "2"), ("0x10", "0x1f"),
                   # bounds whose TEXT order differs from their numeric order (different digit counts / prefixes)
                   ("0x400000", "0x180ffffff"), ("400000", "0x180ffffff"), ("9", "10"), ("0xff", "0x100"), ("0xf", "10"), ("0x9", "0xA0")):
        cfg = J.gd.JASMConfig()
        cfg.load_config({"valid_addr_range": {"min": lo, "max": hi}})
        mop = J.match.MasterOfPuppets.__new__(J.match.MasterOfPuppets)
        mop.global_config = J.gd.JASMConfig()
        try:
            lst = mop.prepare_observers()
            names = [type(o).__name__ for o in lst]
            ok = names == ["RemoveEmptyInstructions", "ValidAddrObserver"]
            if ok:
                inst = J.gd.Instruction(addr="500000", mnemonic="call", operands=[lo[2:] if lo.startswith("0x") else lo])
                r = lst[1].observe_instruction(inst)
                ok = list(r.operands) == ["valid_addr"]
        except Exception as e:   # noqa
            names, ok = repr(e), False
        obs.append(simple_ob(f"prepare_observers:range=[{lo},{hi}]:POST", "jasm.match.MasterOfPuppets.prepare_observers", "POST",
                             f"range [{lo}, {hi}]: the observer is installed and tags a direct call to the lower bound", ok, ["C18"],
                             detail=repr(names), witness=f"{lo}..{hi}"))
    return obs
