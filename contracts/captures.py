"""C05: capture groups.  CapturesManager (registration order = group number), the four capture
builders (first occurrence registers and emits a capturing group, later ones a back-reference),
and the regex of every capture node class against the denotation of DESIGN 3.4."""
from __future__ import annotations

import itertools
from typing import Any, Dict, List, Optional

from vf import grammar as G
from vf import pyvc, rx, vc
from vf.core import Ob, lang_ob, norm, scenario, simple_ob, sym_run
from vf.jasmrt import J, ensure, node_data
from vf.pyvc import Name, ctx

from contracts.nodes import node_obligations

CM = "jasm.jasm_regex.tree_generators.capture_manager.CapturesManager"
CB = "jasm.jasm_regex.tree_generators.pattern_node_type_builder.capture_group_interface.CaptureGroupBaseBuilder.build"
P = ["C05"]


def letter(kind: str, sid: str) -> str:
    return ctx().table.new("sym", f"{kind}:{sid}", skind=kind, sid=sid).text


def cap(k: int, inner: str) -> str:
    return letter("capopen", str(k)) + inner + letter("capclose", str(k))


def bref(k: int) -> str:
    return letter("bref", str(k))


# --------------------------------------------------------------------------- CapturesManager
@scenario("captures:manager", CM, P, doc="get_capture_index / capture_is_registered / add_capture on tables of <= 4 names")
def manager():
    ensure()
    obs: List[Ob] = []
    names = ["&a", "&b", "&c", "&d"]
    n_cases = 0
    for n in range(0, 5):
        for q in names[:n] + ["&zz"]:
            m = J.cm.CapturesManager()
            for x in names[:n]:
                m.add_capture(x)
            n_cases += 1
            exp = (names[:n].index(q) + 1) if q in names[:n] else None
            try:
                got: Any = m.get_capture_index(q)
            except ValueError:
                got = None
            ok = got == exp and m.capture_is_registered(q) == (exp is not None) and m.capture_group_references == names[:n]
            obs.append(simple_ob(f"CapturesManager:{n}:{q}:POST", CM + ".get_capture_index", "POST",
                                 f"table {names[:n]}: index of {q} is 1 + its position (ValueError when absent); registered iff present",
                                 ok, P, detail=f"got {got}, expected {exp}", witness=f"{names[:n]}/{q}"))
            obs[-1].bounded = "CapturesManager: tables of at most 4 names (search loop executed concretely)"
    return obs


# --------------------------------------------------------------------------- builders
BUILDERS = {
    "IntructionCaptureGroupBuilder": ("PatternNodeCaptureGroupInstructionReference", "PatternNodeCaptureGroupInstructionCall", ["&x"]),
    "OperandCaptureGroupBuilder": ("PatternNodeCaptureGroupOperandReference", "PatternNodeCaptureGroupOperandCall", ["&x"]),
    "DerefCaptureGroupBuilder": ("PatternNodeDerefPropertyCaptureGroupReference", "PatternNodeDerefPropertyCaptureGroupCall", ["&x"]),
    "SpecialRegisterCaptureGroupBuilder": ("PatternNodeCaptureGroupSpecialRegisterReference", "PatternNodeCaptureGroupRegisterCall",
                                           ["&genreg", "&genreg.64", "&genreg.8H", "&indreg.32", "&stackreg.16", "&basereg.8L"]),
}


def clean(name: str) -> str:
    """capture key: the name without its width suffix (README table)"""
    parts = name.split(".")
    if len(parts) > 1 and parts[-1].lower() in ("64", "32", "16", "8h", "8l"):
        return ".".join(parts[:-1])
    return name


@scenario("captures:builders", CB, P, inlined=["_capture_is_registered", "add_new_references_to_global_list", "_process_call",
                                               "_process_register", "remove_access_suffix",
                                               "SpecialRegisterCaptureGroupTypeBuilder.process"],
          doc="first occurrence registers + Reference class; later occurrence Call class; key = name without width suffix")
def builders():
    ensure()
    obs: List[Ob] = []
    for bname, (ref_cls, call_cls, names) in BUILDERS.items():
        for nm in names:
            for pre in ([], ["&p"], ["&p", clean(nm)], [clean(nm), "&p"]):
                m = J.cm.CapturesManager()
                for x in pre:
                    m.add_capture(x)
                sc = J.sc.SharedContext(capture_manager=m)
                node = J.untyped.PatternNodeTmpUntyped(node_data(nm, J.gd.TimesType(1, 1), None, sc))
                try:
                    res = getattr(J.cg_builders, bname)().build(node)
                except Exception as e:  # noqa
                    obs.append(simple_ob(f"build:{bname}:{nm}:{pre}:EXC", CB, "EXC", "no exception", False, P, detail=repr(e), witness=repr(e)))
                    continue
                key = clean(nm)
                was = key in pre
                want_refs = pre if was else pre + [key]
                want_cls = call_cls if was else ref_cls
                ok = type(res).__name__ == want_cls and m.capture_group_references == want_refs
                obs.append(simple_ob(f"build:{bname}:{nm}:{'+'.join(pre) or 'empty'}:POST", CB, "POST",
                                     f"{bname}.build({nm}) on table {pre}: {'later occurrence -> ' + call_cls if was else 'first occurrence -> registers ' + key + ', ' + ref_cls}",
                                     ok, P, detail=f"{type(res).__name__} {m.capture_group_references}",
                                     witness=f"{type(res).__name__} {m.capture_group_references}"))
                if was and bname == "SpecialRegisterCaptureGroupBuilder" and "." not in nm:
                    pass    # a later occurrence without width suffix selects no width: NotImplementedError (loud), outside the contract
                elif was:
                    # the back-reference number is the 1-based registration position
                    k = pre.index(key) + 1
                    try:
                        txt = res.get_regex()
                        brefs = [s.ident for s in rx.walk(rx.parse(txt).ast) if isinstance(s, rx.Sym) and s.kind == "bref"]
                        okb = brefs == [str(k)]
                    except Exception as e:  # noqa
                        txt, okb = repr(e), False
                    obs.append(simple_ob(f"build:{bname}:{nm}:{'+'.join(pre)}:POST-INDEX", CB, "POST",
                                         f"the later occurrence refers to group {k} (registration position) and to no other group",
                                         okb, P, detail=txt, witness=txt))
                else:
                    try:
                        txt = res.get_regex()
                        pr = rx.parse(txt)
                        okg = pr.ncaps == 1
                    except Exception as e:  # noqa
                        txt, okg = repr(e), False
                    obs.append(simple_ob(f"build:{bname}:{nm}:{'+'.join(pre) or 'empty'}:POST-ONEGROUP", CB, "CAPS",
                                         "the first occurrence emits exactly one capturing group", okg, P, detail=txt, witness=txt))
    return obs


# --------------------------------------------------------------------------- node regexes
def _mk_ctx(pre: List[str]):
    m = J.cm.CapturesManager()
    for x in pre:
        m.add_capture(x)
    return J.sc.SharedContext(capture_manager=m)


def _cap_scenario(sid, func_cls_mod, cls, level, name, pre, spec_fn, pinned_fn=None, props=P, bref_level=None, unit=True):
    func = f"{cls}.get_regex"

    def run():
        ensure()
        levels: Dict[str, str] = {}
        if bref_level:
            levels["1"] = bref_level
            levels["2"] = bref_level

        def build(times):
            mod = getattr(J, func_cls_mod)
            c = getattr(mod, cls)
            nd = node_data(name, times, None, _mk_ctx(pre))
            if cls == "PatternNodeCaptureGroupSpecialRegisterReference":
                node = J.sreg.SpecialRegisterCaptureGroupTypeBuilder(J.untyped.PatternNodeTmpUntyped(nd)).process()
            else:
                node = c(nd)
            return node.get_regex
        rp = {"kind": "capture", "cls": cls, "name": name, "level": level}
        return node_obligations(func, sid, props, level, build, spec_fn, levels, replay=rp, shapes=["one"],
                                pinned=pinned_fn, unit=unit and level != G.DEREF, ncaps=1 if "Reference" in cls else 0)
    scenario(sid, func, props, doc=f"{cls} ({name}) at {level} level")(run)


H = "[0-9a-f]+::"
# instruction level: the whole instruction without its address
_cap_scenario("cap:inst:ref", "cg_inst", "PatternNodeCaptureGroupInstructionReference", G.INST, "&x", ["&x"],
              lambda: H + cap(1, r"[^,|]+,(?:[^,|]*,)*[^,|]*") + r",\|", props=["C05", "C07", "C11"])
_cap_scenario("cap:inst:call", "cg_inst", "PatternNodeCaptureGroupInstructionCall", G.INST, "&x", ["&x"],
              lambda: H + bref(1) + r",\|", props=["C05", "C07", "C11"], bref_level=G.INSTBODY)
_cap_scenario("cap:inst:call2", "cg_inst", "PatternNodeCaptureGroupInstructionCall", G.INST, "&x", ["&p", "&x"],
              lambda: H + bref(2) + r",\|", props=["C05", "C07", "C11"], bref_level=G.INSTBODY)
# operand level: one whole non-empty operand
_cap_scenario("cap:oper:ref", "cg_op", "PatternNodeCaptureGroupOperandReference", G.OPER, "&x", ["&x"],
              lambda: cap(1, "[^,|]+") + ",", props=["C05", "C07", "C11"])
_cap_scenario("cap:oper:call", "cg_op", "PatternNodeCaptureGroupOperandCall", G.OPER, "&x", ["&x"],
              lambda: bref(1) + ",", props=["C05", "C07", "C11"], bref_level=G.FIELD)
_cap_scenario("cap:oper:call2", "cg_op", "PatternNodeCaptureGroupOperandCall", G.OPER, "&x", ["&p", "&x"],
              lambda: bref(2) + ",", props=["C05", "C07", "C11"], bref_level=G.FIELD)
# deref component
_cap_scenario("cap:deref:ref", "deref", "PatternNodeDerefPropertyCaptureGroupReference", G.DEREF, "&x", ["&x"],
              lambda: cap(1, r"[^,|+*\]]+"), props=["C05", "C06"])
_cap_scenario("cap:deref:call", "deref", "PatternNodeDerefPropertyCaptureGroupCall", G.DEREF, "&x", ["&x"],
              lambda: bref(1), props=["C05", "C06"], bref_level=G.FIELD)

# ---- register families (README table)
FAM = {
    "genreg": ("[abcd]", {"64": "r{}x", "32": "e{}x", "16": "{}x", "8H": "{}h", "8L": "{}l"}, "(.)[xhl]"),
    "indreg": ("[sd]", {"64": "r{}i", "32": "e{}i", "16": "{}i", "8L": "{}il"}, "([sd])il?"),
    "stackreg": ("sp", {"64": "r{}", "32": "e{}", "16": "{}", "8L": "{}l"}, "(sp)l?"),
    "basereg": ("bp", {"64": "r{}", "32": "e{}", "16": "{}", "8L": "{}l"}, "(bp)l?"),
}


def _reg_scenarios():
    for fam, (letters, table, code_slice) in FAM.items():
        for suf in [None] + list(table):
            name = f"&{fam}" + (f".{suf}" if suf else "")
            for level in (G.OPER, G.DEREF):
                term = "," if level == G.OPER else ""

                def spec_ref(fam=fam, letters=letters, table=table, suf=suf, term=term):
                    forms = [table[suf]] if suf else list(table.values())
                    alts = ["%?" + f.format(cap(1, letters)) for f in forms]
                    return "(?:" + "|".join(alts) + ")" + term

                def pinned_ref(code_slice=code_slice):
                    # documented deviating behaviour: width suffix ignored, optional terminator
                    return "%?[re]?" + code_slice + ",?"
                _cap_scenario(f"cap:reg:ref:{name}:{level}", "cg_reg", "PatternNodeCaptureGroupSpecialRegisterReference", level,
                              name, [], spec_ref, pinned_ref, unit=False, props=["C05", "C07", "C11"])
                if suf is None:
                    continue

                def spec_call(table=table, suf=suf, term=term):
                    return "%?" + table[suf].format(bref(1)) + term

                def pinned_call(table=table, suf=suf):
                    return "%?" + table[suf].format(bref(1) + ",?") + ",?"
                _cap_scenario(f"cap:reg:call:{name}:{level}", "cg_reg", "PatternNodeCaptureGroupRegisterCall", level,
                              name, [f"&{fam}"], spec_call, pinned_call, bref_level=G.DEREF if level == G.DEREF else G.FIELD,
                              unit=False, props=["C05", "C07", "C11"])


_reg_scenarios()
