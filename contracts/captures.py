"""C05: capture groups.  CapturesManager (registration order = group number), the four capture
builders (first occurrence registers and emits a capturing group, later ones a back-reference),
and the regex of every capture node class against the denotation of DESIGN 3.4."""
from __future__ import annotations

import itertools
from typing import Any, Dict, List, Optional

from vf import grammar as G
from vf import pyvc, rx, vc
from vf.core import Ob, lang_ob, norm, scenario, simple_ob, sym_run
from vf.jasmrt import J, ensure, node_data
from vf.pyvc import Name, SymSeq, ctx

from contracts.nodes import node_obligations

CM = "jasm.jasm_regex.tree_generators.capture_manager.CapturesManager"
CB = "jasm.jasm_regex.tree_generators.pattern_node_type_builder.capture_group_interface.CaptureGroupBaseBuilder.build"
P = ["C05"]


def letter(kind: str, sid: str) -> str:
    return ctx().table.new("sym", f"{kind}:{sid}", skind=kind, sid=sid).text


def cap(k: int, inner: str) -> str:
    return letter("capopen", str(k)) + inner + letter("capclose", str(k))


def bref(k: int) -> str:
    return letter("bref", str(k))


# --------------------------------------------------------------------------- CapturesManager
@scenario("captures:manager", CM, P, doc="get_capture_index / capture_is_registered / add_capture on tables of <= 4 names")
def manager():
    ensure()
    obs: List[Ob] = []
    names = ["&a", "&b", "&c", "&d"]
    n_cases = 0
    for n in range(0, 5):
        for q in names[:n] + ["&zz"]:
            m = J.cm.CapturesManager()
            for x in names[:n]:
                m.add_capture(x)
            n_cases += 1
            exp = (names[:n].index(q) + 1) if q in names[:n] else None
            try:
                got: Any = m.get_capture_index(q)
            except ValueError:
                got = None
            ok = got == exp and m.capture_is_registered(q) == (exp is not None) and m.capture_group_references == names[:n]
            obs.append(simple_ob(f"CapturesManager:{n}:{q}:POST", CM + ".get_capture_index", "POST",
                                 f"table {names[:n]}: index of {q} is 1 + its position (ValueError when absent); registered iff present",
                                 ok, P, detail=f"got {got}, expected {exp}", witness=f"{names[:n]}/{q}"))
            obs[-1].bounded = "CapturesManager: tables of at most 4 names (search loop executed concretely)"
    return obs


@scenario("captures:manager-sym", CM, P, doc="get_capture_index / capture_is_registered on a table of ANY length (search-loop rule)")
def manager_sym():
    ensure()
    import z3
    from vf.core import z3_ob
    from vf.pyvc import SymName
    obs: List[Ob] = []

    def fn():
        m = J.cm.CapturesManager()
        m._capture_group_references = SymSeq("refs", SymName("r_k"), 0)
        reg = m.capture_is_registered(Name("c"))
        try:
            return ["ret", m.get_capture_index(Name("c")), reg]
        except ValueError:
            return ["raise", None, reg]
    run = sym_run(fn)
    kinds = set()
    for i, p in enumerate(run.paths):
        base = f"CapturesManager:any-length:p{i}"
        if p.kind != "ret":
            obs.append(simple_ob(base + ":EXC", CM + ".get_capture_index", "EXC", "only ValueError", False, P, detail=repr(p.value), witness="exc"))
            continue
        kind, val, reg = p.value
        kinds.add(kind)
        notes = [x for x in p.log if x[0].startswith("search-")]
        present = z3.Bool("eq!r_k!c")           # "some entry of the table equals the capture" (the fact a search decides)
        if kind == "ret":
            # the value must come from a search for the LEAST matching index (loop or list.index), whatever guards precede it
            ok = [n_[0] for n_ in notes if n_[0] == "search-found"] == ["search-found"] and isinstance(val, pyvc.SymInt)
            obs.append(simple_ob(base + ":POST-first", CM + ".get_capture_index", "POST",
                                 "a value is returned only for the LEAST index k whose entry equals the capture (search-loop rule: no earlier entry matched)",
                                 ok, P, detail=repr(notes), witness=repr(notes)))
            obs.append(z3_ob(base + ":POST-present", CM + ".get_capture_index", "POST", "a value is returned only when some entry equals the capture",
                             p.pc, present, P))
            if ok:
                obs.append(z3_ob(base + ":POST-index", CM + ".get_capture_index", "POST", "the value returned is k + 1 (group numbers are 1-based)",
                                 p.pc, val.t == z3.Int("first!refs") + 1, P))
            obs.append(simple_ob(base + ":POST-registered", CM + ".capture_is_registered", "POST", "capture_is_registered is True exactly when an entry equals the capture",
                                 reg is True, P, detail=repr(reg), witness=repr(reg)))
        else:
            obs.append(z3_ob(base + ":EXC-absent", CM + ".get_capture_index", "EXC", "ValueError is raised exactly when no entry equals the capture",
                             p.pc, z3.Not(present), P))
            obs.append(simple_ob(base + ":POST-unregistered", CM + ".capture_is_registered", "POST",
                                 "capture_is_registered is False exactly when no entry equals the capture", reg is False, P, detail=repr(reg), witness=repr(reg)))
    obs.append(simple_ob("CapturesManager:any-length:COVER", CM, "POST", "both outcomes explored (vacuity guard)", kinds == {"ret", "raise"}, P, detail=repr(kinds)))
    # add_capture appends at the end (registration order = list order)
    m = J.cm.CapturesManager()
    m.add_capture("&a"); m.add_capture("&b")
    obs.append(simple_ob("CapturesManager:add_capture:POST", CM + ".add_capture", "POST", "add_capture appends the name at the end of the table",
                         m.capture_group_references == ["&a", "&b"], P, witness=repr(m.capture_group_references)))
    return obs


class ManagerStub:
    """CapturesManager by contract: registered? is an arbitrary fact, the index an arbitrary integer"""

    def __init__(self, log):
        self.log = log
        self.answers = {}

    def capture_is_registered(self, name):
        self.log.append(("registered?", name))
        if name not in self.answers:          # one table, one answer per name
            self.answers[name] = ctx().choose(2, "registered") == 0
        return self.answers[name]

    def add_capture(self, name):
        self.log.append(("add", name))
        self.answers[name] = True             # POST of add_capture: the name is registered from now on

    def get_capture_index(self, name):
        self.log.append(("index", name))
        idx = pyvc.sym_int("idx")
        pyvc.assume(idx.t >= 1)               # POST of get_capture_index: a 1-based position in the table
        return idx


@scenario("captures:builders-sym", CB, P, doc="the four builders against the CapturesManager contract (any table)")
def builders_sym():
    ensure()
    obs: List[Ob] = []
    for bname, (ref_cls, call_cls, names) in BUILDERS.items():
        for nm in names:
            if bname == "SpecialRegisterCaptureGroupBuilder" and "." not in nm:
                continue      # a later occurrence without width suffix raises (outside the contract), first occurrence covered below
            log: List[Any] = []

            def fn():
                log.clear()
                sc = J.sc.SharedContext(capture_manager=ManagerStub(log))
                node = J.untyped.PatternNodeTmpUntyped(node_data(nm, J.gd.TimesType(1, 1), None, sc))
                res = getattr(J.cg_builders, bname)().build(node)
                return [res, res.get_regex(), list(log)]
            run = sym_run(fn)
            for i, p in enumerate(run.paths):
                base = f"build-sym:{bname}:{nm}:p{i}"
                if p.kind != "ret":
                    obs.append(simple_ob(base + ":EXC", CB, "EXC", "no exception", False, P, detail=repr(p.value), witness="exc"))
                    continue
                res, txt, lg = p.value
                key = clean(nm)
                registered = any("choice!registered" in str(c) and not z3_is_not(c) for c in p.pc)
                pr = rx.parse(txt, run.ctx.table)
                if registered:
                    brefs = [s_.ident for s_ in rx.walk(pr.ast) if isinstance(s_, rx.Sym) and s_.kind == "bref"]
                    ok = type(res).__name__ == call_cls and brefs == ["sym:int:idx"] and pr.ncaps == 0 \
                        and [x for x in lg if x[0] == "add"] == [] and ("index", key) in lg
                    st = f"registered name: {call_cls}, a back-reference to exactly the index the table reports for {key!r}, nothing registered"
                else:
                    ok = type(res).__name__ == ref_cls and pr.ncaps == 1 and [x for x in lg if x[0] == "add"] == [("add", key)] \
                        and not [x for x in lg if x[0] == "index"]
                    st = f"unregistered name: {key!r} is registered once, {ref_cls} with exactly one capturing group"
                obs.append(simple_ob(base + ":POST", CB, "POST", st, ok, P, detail=f"{type(res).__name__} {run.ctx.table.show(txt)} {lg}", witness=type(res).__name__))
    return obs


def z3_is_not(c):
    import z3
    return z3.is_not(c)


# --------------------------------------------------------------------------- builders
BUILDERS = {
    "IntructionCaptureGroupBuilder": ("PatternNodeCaptureGroupInstructionReference", "PatternNodeCaptureGroupInstructionCall", ["&x"]),
    "OperandCaptureGroupBuilder": ("PatternNodeCaptureGroupOperandReference", "PatternNodeCaptureGroupOperandCall", ["&x"]),
    "DerefCaptureGroupBuilder": ("PatternNodeDerefPropertyCaptureGroupReference", "PatternNodeDerefPropertyCaptureGroupCall", ["&x"]),
    "SpecialRegisterCaptureGroupBuilder": ("PatternNodeCaptureGroupSpecialRegisterReference", "PatternNodeCaptureGroupRegisterCall",
                                           ["&genreg", "&genreg.64", "&genreg.8H", "&indreg.32", "&stackreg.16", "&basereg.8L"]),
}


def clean(name: str) -> str:
    """capture key: the name without its width suffix (README table)"""
    parts = name.split(".")
    if len(parts) > 1 and parts[-1].lower() in ("64", "32", "16", "8h", "8l"):
        return ".".join(parts[:-1])
    return name


@scenario("captures:builders", CB, P, inlined=["_capture_is_registered", "add_new_references_to_global_list", "_process_call",
                                               "_process_register", "remove_access_suffix",
                                               "SpecialRegisterCaptureGroupTypeBuilder.process"],
          doc="first occurrence registers + Reference class; later occurrence Call class; key = name without width suffix")
def builders():
    ensure()
    obs: List[Ob] = []
    for bname, (ref_cls, call_cls, names) in BUILDERS.items():
        for nm in names:
            for pre in ([], ["&p"], ["&p", clean(nm)], [clean(nm), "&p"]):
                m = J.cm.CapturesManager()
                for x in pre:
                    m.add_capture(x)
                sc = J.sc.SharedContext(capture_manager=m)
                node = J.untyped.PatternNodeTmpUntyped(node_data(nm, J.gd.TimesType(1, 1), None, sc))
                try:
                    res = getattr(J.cg_builders, bname)().build(node)
                except Exception as e:  # noqa
                    obs.append(simple_ob(f"build:{bname}:{nm}:{pre}:EXC", CB, "EXC", "no exception", False, P, detail=repr(e), witness=repr(e)))
                    continue
                key = clean(nm)
                was = key in pre
                want_refs = pre if was else pre + [key]
                want_cls = call_cls if was else ref_cls
                ok = type(res).__name__ == want_cls and m.capture_group_references == want_refs
                obs.append(simple_ob(f"build:{bname}:{nm}:{'+'.join(pre) or 'empty'}:POST", CB, "POST",
                                     f"{bname}.build({nm}) on table {pre}: {'later occurrence -> ' + call_cls if was else 'first occurrence -> registers ' + key + ', ' + ref_cls}",
                                     ok, P, detail=f"{type(res).__name__} {m.capture_group_references}",
                                     witness=f"{type(res).__name__} {m.capture_group_references}"))
                if was and bname == "SpecialRegisterCaptureGroupBuilder" and "." not in nm:
                    pass    # a later occurrence without width suffix selects no width: NotImplementedError (loud), outside the contract
                elif was:
                    # the back-reference number is the 1-based registration position
                    k = pre.index(key) + 1
                    try:
                        txt = res.get_regex()
                        brefs = [s.ident for s in rx.walk(rx.parse(txt).ast) if isinstance(s, rx.Sym) and s.kind == "bref"]
                        okb = brefs == [str(k)]
                    except Exception as e:  # noqa
                        txt, okb = repr(e), False
                    obs.append(simple_ob(f"build:{bname}:{nm}:{'+'.join(pre)}:POST-INDEX", CB, "POST",
                                         f"the later occurrence refers to group {k} (registration position) and to no other group",
                                         okb, P, detail=txt, witness=txt))
                else:
                    try:
                        txt = res.get_regex()
                        pr = rx.parse(txt)
                        okg = pr.ncaps == 1
                    except Exception as e:  # noqa
                        txt, okg = repr(e), False
                    obs.append(simple_ob(f"build:{bname}:{nm}:{'+'.join(pre) or 'empty'}:POST-ONEGROUP", CB, "CAPS",
                                         "the first occurrence emits exactly one capturing group", okg, P, detail=txt, witness=txt))
    return obs


# --------------------------------------------------------------------------- node regexes
def _mk_ctx(pre: List[str]):
    m = J.cm.CapturesManager()
    for x in pre:
        m.add_capture(x)
    return J.sc.SharedContext(capture_manager=m)


def _cap_scenario(sid, func_cls_mod, cls, level, name, pre, spec_fn, pinned_fn=None, props=P, bref_level=None, unit=True):
    func = f"{cls}.get_regex"

    def run():
        ensure()
        levels: Dict[str, str] = {}
        if bref_level:
            levels["1"] = bref_level
            levels["2"] = bref_level

        def build(times):
            mod = getattr(J, func_cls_mod)
            c = getattr(mod, cls)
            nd = node_data(name, times, None, _mk_ctx(pre))
            if cls == "PatternNodeCaptureGroupSpecialRegisterReference":
                node = J.sreg.SpecialRegisterCaptureGroupTypeBuilder(J.untyped.PatternNodeTmpUntyped(nd), in_deref=(level == G.DEREF)).process()
            elif cls == "PatternNodeCaptureGroupRegisterCall":
                node = c(nd, in_deref=(level == G.DEREF))
            else:
                node = c(nd)
            return node.get_regex
        rp = {"kind": "capture", "cls": cls, "name": name, "level": level}
        return node_obligations(func, sid, props, level, build, spec_fn, levels, replay=rp, shapes=["one"],
                                pinned=pinned_fn, unit=unit and level != G.DEREF, ncaps=1 if "Reference" in cls else 0)
    scenario(sid, func, props, doc=f"{cls} ({name}) at {level} level")(run)


H = "[0-9a-f]+::"
# instruction level: the whole instruction without its address
_cap_scenario("cap:inst:ref", "cg_inst", "PatternNodeCaptureGroupInstructionReference", G.INST, "&x", ["&x"],
              lambda: H + cap(1, r"[^,|]+,(?:[^,|]*,)*[^,|]*") + r",\|", props=["C05", "C07", "C11"])
_cap_scenario("cap:inst:call", "cg_inst", "PatternNodeCaptureGroupInstructionCall", G.INST, "&x", ["&x"],
              lambda: H + bref(1) + r",\|", props=["C05", "C07", "C11"], bref_level=G.INSTBODY)
_cap_scenario("cap:inst:call2", "cg_inst", "PatternNodeCaptureGroupInstructionCall", G.INST, "&x", ["&p", "&x"],
              lambda: H + bref(2) + r",\|", props=["C05", "C07", "C11"], bref_level=G.INSTBODY)
# operand level: one whole non-empty operand
_cap_scenario("cap:oper:ref", "cg_op", "PatternNodeCaptureGroupOperandReference", G.OPER, "&x", ["&x"],
              lambda: cap(1, "[^,|]+") + ",", props=["C05", "C07", "C11"])
_cap_scenario("cap:oper:call", "cg_op", "PatternNodeCaptureGroupOperandCall", G.OPER, "&x", ["&x"],
              lambda: bref(1) + ",", props=["C05", "C07", "C11"], bref_level=G.FIELD)
_cap_scenario("cap:oper:call2", "cg_op", "PatternNodeCaptureGroupOperandCall", G.OPER, "&x", ["&p", "&x"],
              lambda: bref(2) + ",", props=["C05", "C07", "C11"], bref_level=G.FIELD)
# deref component
_cap_scenario("cap:deref:ref", "deref", "PatternNodeDerefPropertyCaptureGroupReference", G.DEREF, "&x", ["&x"],
              lambda: cap(1, r"[^,|+*\]]+"), props=["C05", "C06"])
_cap_scenario("cap:deref:call", "deref", "PatternNodeDerefPropertyCaptureGroupCall", G.DEREF, "&x", ["&x"],
              lambda: bref(1), props=["C05", "C06"], bref_level=G.FIELD)

# ---- register families (README table)
FAM = {
    "genreg": ("[abcd]", {"64": "r{}x", "32": "e{}x", "16": "{}x", "8H": "{}h", "8L": "{}l"}, "[re]?{}[xhl]"),
    "indreg": ("[sd]", {"64": "r{}i", "32": "e{}i", "16": "{}i", "8L": "{}il"}, "[re]?{}il?"),
    "stackreg": ("sp", {"64": "r{}", "32": "e{}", "16": "{}", "8L": "{}l"}, "[re]?{}l?"),
    "basereg": ("bp", {"64": "r{}", "32": "e{}", "16": "{}", "8L": "{}l"}, "[re]?{}l?"),
}


def _reg_scenarios():
    for fam, (letters, table, anywidth) in FAM.items():
        for suf in [None] + list(table):
            name = f"&{fam}" + (f".{suf}" if suf else "")
            for level in (G.OPER, G.DEREF):
                term = "," if level == G.OPER else ""

                def spec_ref(letters=letters, table=table, suf=suf, term=term, anywidth=anywidth):
                    # with a suffix: exactly the register of that width (README table); without: the family's
                    # register of any width (prefix r/e optional, any of the width endings; texts such as %rah
                    # are not register names and are never printed by objdump)
                    form = table[suf] if suf else anywidth
                    return "%?" + form.format(cap(1, letters)) + term
                _cap_scenario(f"cap:reg:ref:{name}:{level}", "cg_reg", "PatternNodeCaptureGroupSpecialRegisterReference", level,
                              name, [], spec_ref, None, unit=(level == G.OPER), props=["C05", "C07", "C11"])
                if suf is None:
                    continue

                def spec_call(table=table, suf=suf, term=term):
                    return "%?" + table[suf].format(bref(1)) + term
                _cap_scenario(f"cap:reg:call:{name}:{level}", "cg_reg", "PatternNodeCaptureGroupRegisterCall", level,
                              name, [f"&{fam}"], spec_call, None, bref_level=G.DEREF if level == G.DEREF else G.FIELD,
                              unit=(level == G.OPER), props=["C05", "C07", "C11"])


_reg_scenarios()


# --------------------------------------------------------------------------- capture key (name without width suffix)
RAS = "jasm.global_definitions.remove_access_suffix"
SUFFIXES = ("64", "32", "16", "8h", "8l", "8H", "8L")


@scenario("captures:key", RAS, ["C05"],
          doc="the key under which a register capture is registered and looked up is the name without its width suffix -- for every base name")
def capture_key():
    """remove_access_suffix(base + '.' + suffix) == base for every dot-free capture name base (structured string: the base is a
    variable over &[^.]*), for bases that themselves contain dots (base = V.W), and name unchanged when the last
    dot-separated part is not a width; plus concrete bases whose last characters occur in the suffix (digits, l, h, '.')."""
    ensure()
    from vf import sstr
    obs: List[Ob] = []
    f = J.gd.remove_access_suffix
    shapes = []
    for suf in SUFFIXES:
        shapes.append((f"V.{suf}", lambda suf=suf: sstr.var("V", "&[^.]*") + sstr.lit("." + suf), lambda: sstr.var("V", "&[^.]*")))
        shapes.append((f"V.W.{suf}", lambda suf=suf: sstr.var("V", "&[^.]*") + sstr.lit(".") + sstr.var("W", "[^.]+") + sstr.lit("." + suf),
                       lambda: sstr.var("V", "&[^.]*") + sstr.lit(".") + sstr.var("W", "[^.]+")))
    shapes.append(("V", lambda: sstr.var("V", "&[^.]*"), lambda: sstr.var("V", "&[^.]*")))
    shapes.append(("V.other", lambda: sstr.var("V", "&[^.]*") + sstr.lit(".other"), lambda: sstr.var("V", "&[^.]*") + sstr.lit(".other")))
    for sid, mk, want in shapes:
        try:
            run = sym_run(lambda: f(pattern_name=mk()))
        except Exception as e:   # noqa
            obs.append(simple_ob(f"remove_access_suffix:{sid}:RUN", RAS, "RUN", "symbolic execution completes", None, P, detail=f"unsupported: {e}"))
            continue
        for i, p in enumerate(run.paths):
            base = f"remove_access_suffix:{sid}:p{i}"
            if p.kind == "exc":
                obs.append(simple_ob(base + ":EXC", RAS, "EXC", "no exception", False, P, detail=repr(p.value), witness="exc"))
                continue
            pyvc.CUR = run.ctx
            try:
                w = want()
                got = p.value
                ok = isinstance(got, str) and sstr.SymStr(got).payload == sstr.SymStr(w).payload if isinstance(got, str) else False
            finally:
                pyvc.CUR = None
            obs.append(simple_ob(base + ":POST", RAS, "POST", f"the key of {sid} is the name without the width suffix (the name itself when there is none)",
                                 ok, P, detail=run.ctx.table.show(str(got)) if isinstance(got, str) else repr(got), witness=sid))
    # concrete representatives: last characters of the base occur in '.' + suffix
    bases = ["&genreg", "&genreg-1", "&genreg-6", "&genreg-2", "&genreg-3", "&genreg-4", "&genreg-8", "&indreg-1", "&x.y", "&l", "&h", "&a8", "&r16", "&g."]
    for b in bases:
        for suf in SUFFIXES + ("other", "1", ""):
            nm = b + "." + suf if suf else b
            try:
                got = f(pattern_name=nm)
            except Exception as e:  # noqa
                got = repr(e)
            obs.append(simple_ob(f"remove_access_suffix:concrete:{nm}:POST", RAS, "POST", f"key of {nm!r} is {clean(nm)!r}", got == clean(nm), P,
                                 detail=repr(got), witness=f"{nm} -> {got}",
                                 replay={"kind": "call", "target": "jasm.global_definitions:remove_access_suffix", "kwargs": {"pattern_name": nm},
                                         "expect": clean(nm)}))
    return obs
