"""C07 data obligation: the shipped @any wildcard macro (tests/macros/jasm_macros.yaml), placed in
operand and in mnemonic position through the real node classes, must stay inside one field."""
from __future__ import annotations

import os
from typing import Dict, List

import yaml

from vf import grammar as G
from vf.core import Ob, scenario, simple_ob
from vf.instrument import repo_root
from vf.jasmrt import J, ensure, node_data, set_flags

from contracts.nodes import MN_FUNC, OP_FUNC, node_obligations


def any_pattern() -> str:
    p = os.path.join(repo_root(), "tests", "macros", "jasm_macros.yaml")
    doc = yaml.safe_load(open(p))
    for m in doc.get("macros", []):
        if m.get("name") == "@any":
            return m["pattern"]
    raise KeyError("@any not found in the shipped macro file")


def _mk(position: str):
    sid = f"anymacro:{position}"
    func = OP_FUNC if position == "operand" else MN_FUNC

    def run():
        ensure()
        levels: Dict[str, str] = {}
        pat = any_pattern()
        if not isinstance(pat, str):
            return [simple_ob(f"{sid}:TYPE", func, "POST", "@any is a string macro", False, ["C07"], detail=repr(pat), witness="type")]

        def build(times):
            set_flags(False, False)
            cls = J.mo.PatternNodeOperand if position == "operand" else J.mo.PatternNodeMnemonic
            return cls(node_data(pat, times, None)).get_regex
        if position == "operand":
            spec = lambda: "[^,|]*[^,| ][^,|]*,"                      # one whole field holding a non-blank character
            pinned = lambda: "[^,|]*" + pat + "[^,|]*,"
            level = G.OPER
        else:
            spec = lambda: "[0-9a-f]+::[^,|]*[^,| ][^,|]*,[^|]*\\|"    # one whole record, any mnemonic
            pinned = lambda: "[0-9a-f]+::[^,|]*" + pat + "[^,|]*,[^|]*\\|"
            level = G.INST
        rp = {"kind": "anymacro", "position": position, "pattern": pat, "level": level}
        obs = node_obligations(func, sid, ["C07"], level, build, spec, levels, replay=rp, shapes=["one"], unit=True, pinned=pinned)
        for o in obs:
            if "C07" not in o.props:
                o.props.append("C07")
        return obs
    scenario(sid, func, ["C07"], doc=f"shipped @any macro as {position} name")(run)


_mk("operand")
_mk("mnemonic")
