"""C08 / C09 / C10 / C16 (and the parser half of C06): the objdump listing parser.

Inputs are structured strings (vf.sstr): every line / operand shape of the assumed objdump grammar G
(DESIGN appendix B) with its variable parts symbolic.  The real LineParser / OperandsParser run on
them; re.match / re.search / re.split are answered by vf.symre (uniqueness of groups).
"""
from __future__ import annotations

import itertools
from typing import Any, Callable, Dict, List, Optional, Tuple

from vf import pyvc, rx, sstr
from vf.core import Ob, scenario, simple_ob, sym_run, worst_per_name
from vf.jasmrt import J, NullLog, ensure
from vf.pyvc import Name, SymSeq, Unsupported, ctx
from vf.sstr import SymStr, lit, uniform, var

LP = "jasm.stringify_asm.implementations.gnu_objdump.asm_manual_parser_w_regex"
H = "[0-9a-f]"

# --------------------------------------------------------------------------- grammar G: variable parts
V = {
    "pad": " *",
    "addr": H + "+",
    "bytes": "(?:" + H + "{2} )+ *",
    "cbytes": "(?:" + H + "{2} )*" + H + "{2} ?",
    "mn": r"[a-z][a-z0-9.]*",
    "sp": " +",
    "ops": r"[^ #\t\n]+",
    "r1": r"[a-z0-9]+",
    "r2": r"[a-z0-9]+",
    "rest": r"(?:[ #][^\n]*)?",
    "trail": " *",
    "name": r"[^\n\t]*",
    "fname": r"[^\n\t< ]*",
    "fmt": r"[a-z0-9-]+",
    "pseudo": r"\{[a-z0-9]+\}",
}


def v(name: str, ident: Optional[str] = None) -> SymStr:
    # free text of the listing does not mention the keyword data16 (scope of G; see DESIGN appendix B)
    return var(ident or name, V[name], avoid="data16" if name in ("mn", "ops", "rest", "name", "fname", "r1", "r2") else None)


def OPS() -> SymStr:
    """the operand token of the line shapes: two register operands (the splitter and the normaliser are under their own
    contracts for every operand form -- C09; here the REAL ones run, so that no call structure is prescribed)"""
    return lit("%") + v("r1") + ",%" + v("r2")


OPS_EXPECTED = ["%‹r1›", "%‹r2›"]


def line_shapes() -> List[Tuple[str, Callable[[], SymStr], Dict[str, Any]]]:
    """(id, builder, expectation)"""
    def head():
        return v("pad") + v("addr") + ":\t" + v("bytes") + "\t"
    shapes: List[Tuple[str, Callable[[], SymStr], Dict[str, Any]]] = []
    shapes.append(("insn-ops", lambda: head() + v("mn") + v("sp") + OPS() + v("rest"),
                   {"kind": "insn", "mn": "mn", "ops": "ops"}))
    shapes.append(("insn-noops", lambda: head() + v("mn") + v("trail"), {"kind": "insn", "mn": "mn", "ops": None}))
    shapes.append(("insn-hint", lambda: head() + v("mn") + ",pn" + v("sp") + OPS() + v("rest"),
                   {"kind": "insn", "mn": "mn+,pn", "ops": "ops"}))
    shapes.append(("insn-bad", lambda: head() + "(bad)" + v("trail"), {"kind": "insn", "mn": "lit:bad", "ops": None}))
    shapes.append(("insn-data16", lambda: head() + "data16 " + v("mn") + v("sp") + OPS() + v("rest"),
                   {"kind": "insn", "mn": "mn", "ops": "ops"}))
    shapes.append(("insn-data16-noops", lambda: head() + "data16 " + v("mn") + v("trail"), {"kind": "insn", "mn": "mn", "ops": None}))
    # a 0x66 byte that starts no decodable instruction is printed as the one-token instruction "data16"
    shapes.append(("insn-data16-lone", lambda: head() + "data16", {"kind": "insn", "mn": "lit:data16", "ops": None}))
    shapes.append(("insn-prefix", lambda: head() + "rep " + v("mn") + v("sp") + OPS() + v("rest"),
                   {"kind": "insn", "mn": "lit:rep", "ops": "mn"}))
    shapes.append(("cont", lambda: v("pad") + v("addr") + ":\t" + v("cbytes"), {"kind": "empty"}))
    shapes.append(("label", lambda: v("addr") + " <" + v("name") + ">:", {"kind": "other"}))
    shapes.append(("section", lambda: lit("Disassembly of section ") + v("name") + ":", {"kind": "other"}))
    shapes.append(("blank", lambda: lit(""), {"kind": "other"}))
    shapes.append(("elision", lambda: lit("\t..."), {"kind": "other"}))
    shapes.append(("header", lambda: v("fname") + ":     file format " + v("fmt"), {"kind": "other"}))
    shapes.append(("insn-pseudo-prefix", lambda: head() + v("pseudo") + " " + v("mn") + v("sp") + OPS() + v("rest"),
                   {"kind": "insn", "mn": "pseudo", "ops": "mn"}))
    return shapes


class OpsStub:
    """contract of get_splitted_operands + OperandsParser.parse (verified separately, C09):
    the operand text is split and normalised; here only the fact that exactly the operand token is
    handed over matters"""

    def __init__(self):
        self.calls: List[Any] = []


ALL_SET_CONFIG = {"style": "intel", "mnemonics-full-match": True, "operands-full-match": True,
                  "valid_addr_range": {"min": "0x1000", "max": "0x2000"}, "sections": [".text"]}


def _load_all_set_config():
    """the rule's configuration with every entry set (through the real load_config): the parser's contracts are stated for every
    configuration state -- the instruction stream is a function of the listing"""
    try:
        J.gd.JASMConfig().load_config(dict(ALL_SET_CONFIG))
    except Exception as e:  # noqa
        raise Unsupported(f"the all-entries configuration cannot be loaded on this tree: {e!r}")


def _run_line(build: Callable[[], SymStr], calls: List[Any], cfg: bool = False):
    lp = J.lp
    if cfg:
        _load_all_set_config()
    lp.logger = NullLog()
    return lp.parse_line(build())


def _show(c, x) -> str:
    if isinstance(x, str):
        return c.table.show(str.__str__(x))
    return repr(x)


def _line_scenarios():
    for sid, build, exp, cfg in [(a, b, c, k) for (a, b, c) in line_shapes() for k in (False, True)]:
        func = LP + ".parse_line"
        if cfg:
            sid = sid + "@all-config"

        def run(sid=sid, build=build, exp=exp, func=func, cfg=cfg):
            ensure()
            obs: List[Ob] = []
            calls: List[Any] = []

            def fn():
                calls.clear()
                r = _run_line(build, calls, cfg)
                return [r, list(calls)]
            try:
                runr = sym_run(fn)
            except Unsupported as e:
                return [simple_ob(f"parse_line:{sid}:RUN", func, "RUN", "symbolic execution of the classifier completes", None,
                                  ["C08", "C16"], detail=f"unsupported: {e}")]
            c = runr.ctx
            for i, p in enumerate(runr.paths):
                base = f"parse_line:{sid}:p{i}"
                if p.kind != "ret":
                    obs.append(simple_ob(base + ":EXC", func, "EXC", f"[{sid}] no line of the objdump grammar makes the parser fail", False,
                                         ["C08", "C16"], detail=repr(p.value) + getattr(p.value, "_pyvc_tb", "")[-300:], witness=type(p.value).__name__))
                    continue
                r, cl = p.value
                is_inst = type(r).__name__ == "Instruction"
                if exp["kind"] == "other":
                    obs.append(simple_ob(base + ":POST-not-instruction", func, "POST",
                                         f"[{sid}] labels / section headers / blank lines / elisions / the file-format header yield no instruction",
                                         not is_inst, ["C08", "C16"], detail=repr(r), witness=type(r).__name__))
                    continue
                if exp["kind"] == "empty":
                    ok = is_inst and r.mnemonic == "empty" and list(r.operands) == []
                    obs.append(simple_ob(base + ":POST-continuation", func, "POST",
                                         f"[{sid}] a byte-continuation line yields the pseudo instruction 'empty' (dropped before the stream is built)",
                                         ok, ["C08", "C16"], detail=repr(r), witness=repr(r)[:80]))
                    continue
                if not is_inst:
                    obs.append(simple_ob(base + ":POST-instruction", func, "POST", f"[{sid}] an instruction line yields an Instruction "
                                         "(whatever its padding, byte column, annotation or comment say)", False,
                                         ["C08", "C16", "C10"], detail=repr(r), witness=type(r).__name__))
                    continue
                addr_ok = _show(c, r.addr) == "‹addr›"
                want_mn = exp["mn"]
                if want_mn.startswith("lit:"):
                    mn_ok = _show(c, r.mnemonic) == want_mn[4:]
                elif want_mn == "mn+,pn":
                    mn_ok = _show(c, r.mnemonic) == "‹mn›.pn"      # the hint's comma is encoded as '.' (no separator inside a field)
                else:
                    mn_ok = _show(c, r.mnemonic) == "‹" + want_mn + "›"
                obs.append(simple_ob(base + ":POST-addr-mnemonic", func, "POST",
                                     f"[{sid}] the instruction carries the line's address and its first instruction token as mnemonic; "
                                     "padding, byte column, annotation and comment do not occur in the result",
                                     addr_ok and mn_ok, ["C08", "C16", "C10"], detail=f"addr={_show(c, r.addr)} mnemonic={_show(c, r.mnemonic)}",
                                     witness=f"{_show(c, r.addr)}/{_show(c, r.mnemonic)}"))
                for fname, fval in (("address", r.addr), ("mnemonic", r.mnemonic)):
                    bad = _clean(c, str.__str__(fval)) if isinstance(fval, str) else None
                    obs.append(simple_ob(base + f":CLEAN-{fname}", func, "POST", f"[{sid}] the {fname} field contains no ',' '|' or '::'",
                                         bad is None, ["C10"], detail=f"may contain {bad!r}: {_show(c, fval)}", witness=f"{bad}:{_show(c, fval)}"))
                if exp["ops"] is None:
                    ok = list(r.operands) == []
                    obs.append(simple_ob(base + ":POST-no-operands", func, "POST", f"[{sid}] an instruction without operand token has no operands",
                                         ok, ["C08", "C09", "C16", "C10"], detail=repr(r.operands), witness=repr(r.operands)[:60]))
                else:
                    shown_ops = [_show(c, o_) for o_ in r.operands]
                    want_ops = OPS_EXPECTED if exp["ops"] == "ops" else ["‹" + exp["ops"] + "›"]
                    ok = shown_ops == want_ops
                    obs.append(simple_ob(base + ":POST-operands", func, "POST",
                                         f"[{sid}] operands = normalise(split(the operand token)) -- exactly the token after the mnemonic, "
                                         "up to the first space or '#' (nothing else becomes an operand)", ok, ["C08", "C09", "C16", "C10"],
                                         detail=repr(shown_ops), witness=repr(shown_ops)[:80]))
            return obs
        scenario(f"parser:line:{sid}", func, ["C08", "C16", "C10", "C09"],
                 inlined=["LineParser.parse", "parse_instruction", "parse_instruction_no_operands", "parse_label", "parse_nop_padding",
                          "is_line_broken", "is_empty_line", "parse_section", "line_is_title"],
                 doc=f"line shape {sid} of grammar G" + (" -- with every configuration entry set (style intel, both full-match flags, a "
                                                         "valid_addr_range, sections): the parser does not depend on the rule's configuration" if cfg else ""))(run)


_line_scenarios()


# --------------------------------------------------------------------------- operands (C09, C06 parser half, C10 field cleanliness)
REG = r"%[a-z0-9]+"
DISP = r"0x" + H + "+"
NDISP = r"-0x" + H + "+"


def operand_forms() -> List[Tuple[str, Callable[[str], SymStr], Callable[[Dict[str, str]], str]]]:
    """(id, builder(k) -> operand text, expected normal form as a function of the component renderings)"""
    def R(n):
        return lambda k: var(f"{n}{k}", REG)
    forms: List[Tuple[str, Any, Any]] = []
    forms.append(("imm", lambda k: lit("$") + var(f"i{k}", DISP), lambda k: f"‹i{k}›"))
    forms.append(("imm-neg", lambda k: lit("$") + var(f"i{k}", NDISP), lambda k: f"‹i{k}›"))
    forms.append(("reg", lambda k: var(f"r{k}", REG), lambda k: f"‹r{k}›"))
    for dname, dre in (("", None), ("k", DISP), ("nk", NDISP)):
        d = (lambda k, dre=dre: var(f"k{k}", dre)) if dre else (lambda k: lit(""))
        dk = (lambda k: f"+‹k{k}›") if dre else (lambda k: "")
        forms.append((f"mem-abc{dname}", lambda k, d=d: d(k) + "(" + var(f"a{k}", REG) + "," + var(f"b{k}", REG) + "," + var(f"c{k}", "[1248]") + ")",
                      lambda k, dk=dk: f"[‹a{k}›+‹b{k}›*‹c{k}›{dk(k)}]"))
        forms.append((f"mem-a{dname}", lambda k, d=d: d(k) + "(" + var(f"a{k}", REG) + ")", lambda k, dk=dk: f"[‹a{k}›{dk(k)}]"))
        if dre:
            forms.append((f"mem-bc{dname}", lambda k, d=d: d(k) + "(," + var(f"b{k}", REG) + "," + var(f"c{k}", "[1248]") + ")",
                          lambda k, dk=dk: f"[+‹b{k}›*‹c{k}›{dk(k)}]"))
        # 16-bit addressing (addr16 prefix / i8086 code): base and index without a scale, (a,b) and k(a,b)
        forms.append((f"mem-ab{dname}", lambda k, d=d: d(k) + "(" + var(f"a{k}", REG) + "," + var(f"b{k}", REG) + ")",
                      lambda k, dk=dk: f"[‹a{k}›+‹b{k}›{dk(k)}]"))
    forms.append(("target", lambda k: var(f"t{k}", H + "+"), lambda k: f"‹t{k}›"))
    return forms


QUICK_FORMS = ["imm", "reg", "mem-abck", "mem-abc", "mem-bcnk", "mem-ak", "mem-a", "mem-abk", "target"]


def _split_scenarios():
    forms = operand_forms()
    fmap = {f[0]: f for f in forms}
    func = LP + ".LineParser.get_splitted_operands"

    def mk(n):
        def run():
            ensure()
            import os
            names = [f[0] for f in forms] if os.environ.get("VERIF_TIER") == "thorough" or n < 3 else QUICK_FORMS
            obs: List[Ob] = []
            for combo in itertools.product(names, repeat=n):
                def fn():
                    s: Any = lit("")
                    for k, fid in enumerate(combo):
                        if k:
                            s = s + ","
                        s = s + fmap[fid][1](str(k))
                    return [J.lp.LineParser.get_splitted_operands(s), [fmap[fid][1](str(k)) for k, fid in enumerate(combo)]]
                try:
                    runr = sym_run(fn)
                except Unsupported as e:
                    obs.append(simple_ob(f"get_splitted_operands:{'+'.join(combo)}:RUN", func, "RUN", "symbolic execution completes", None, ["C09"],
                                         detail=f"unsupported: {e}"))
                    continue
                for i, p in enumerate(runr.paths):
                    if p.kind != "ret":
                        obs.append(simple_ob(f"get_splitted_operands:{'+'.join(combo)}:p{i}:EXC", func, "EXC", "no exception", False, ["C09", "C08"],
                                             detail=repr(p.value), witness="+".join(combo)))
                        continue
                    got, want = p.value
                    ok = [str.__str__(x) for x in got] == [str.__str__(x) for x in want]
                    obs.append(simple_ob(f"get_splitted_operands:{'+'.join(combo)}:p{i}:POST", func, "POST",
                                         f"operands {combo}: commas inside parentheses never split, commas between operands always do; order kept",
                                         ok, ["C09"], detail=f"{[runr.ctx.table.show(str.__str__(x)) for x in got]}",
                                         witness=f"{[runr.ctx.table.show(str.__str__(x)) for x in got]}"))
            return obs
        return run
    for n in (1, 2, 3):
        scenario(f"parser:split:{n}", func, ["C09"], doc=f"operand splitter on every mix of {n} operand forms")(mk(n))


_split_scenarios()


def _clean(c, s: str) -> Optional[str]:
    """CLEAN (C10): no instance of the field contains ',', '|' or '::'"""
    st = SymStr(s)
    pyvc.CUR = c
    try:
        for needle in (",", "|", "::"):
            u = uniform(st.ast(), rx.Cat((rx.Rep(sstr.ANY_ALL, 0, None), sstr._lit_ast(needle), rx.Rep(sstr.ANY_ALL, 0, None))))
            if u is not False:
                return needle
    finally:
        pyvc.CUR = None
    return None


@scenario("parser:normalise", LP + ".OperandsParser._process_operand_elem", ["C09", "C06", "C10", "C08"],
          inlined=["form_full_operand_with_4_elements", "form_full_operand_with_3_elements", "form_full_operand_with_1_element",
                   "parse_operand_types", "operand_is_int", "operand_is_hex", "label_or_reference", "parse_special_cases"],
          doc="normal form of every operand form of the statement")
def normalise():
    ensure()
    obs: List[Ob] = []
    func = LP + ".OperandsParser._process_operand_elem"
    for fid, build, want in operand_forms():
        def fn():
            return J.lp.OperandsParser(operands=[])._process_operand_elem(operand_elem=build("0"))
        try:
            runr = sym_run(fn)
        except Unsupported as e:
            obs.append(simple_ob(f"_process_operand_elem:{fid}:RUN", func, "RUN", "symbolic execution completes", None, ["C09", "C06"],
                                 detail=f"unsupported: {e}"))
            continue
        for i, p in enumerate(runr.paths):
            base = f"_process_operand_elem:{fid}:p{i}"
            if p.kind != "ret":
                obs.append(simple_ob(base + ":EXC", func, "EXC", "no exception", False, ["C09", "C08"], detail=repr(p.value), witness=fid))
                continue
            shown = runr.ctx.table.show(str.__str__(p.value))
            obs.append(simple_ob(base + ":POST", func, "POST", f"[{fid}] normal form is {want('0')}", shown == want("0"), ["C09", "C06"],
                                 detail=shown, witness=shown, replay={"kind": "operand-form", "form": fid}))
            bad = _clean(runr.ctx, str.__str__(p.value))
            obs.append(simple_ob(base + ":CLEAN", func, "POST", f"[{fid}] the normal form contains no ',' '|' or '::'", bad is None, ["C10"],
                                 detail=f"may contain {bad!r}: {shown}", witness=f"{bad}"))
    return obs


def general_operand_shapes() -> List[Tuple[str, Callable[[], SymStr]]]:
    """further operand texts objdump prints (C08: none of them may make the parser fail; C10: fields stay clean)"""
    r = lambda n: var(n, REG)
    return [
        ("star-reg", lambda: lit("*") + r("r")),
        ("star-mem", lambda: lit("*") + var("k", DISP) + "(" + r("a") + ")"),
        ("star-mem-abc", lambda: lit("*") + var("k", DISP) + "(," + r("b") + "," + var("c", "[1248]") + ")"),
        ("seg-disp", lambda: r("s") + ":" + var("k", DISP)),
        ("seg-mem", lambda: r("s") + ":(" + r("a") + ")"),
        ("seg-mem-abc", lambda: r("s") + ":" + var("k", DISP) + "(" + r("a") + "," + r("b") + "," + var("c", "[1248]") + ")"),
        ("st", lambda: lit("%st(") + var("n", "[0-7]") + ")"),
        ("mem-ab16", lambda: lit("(") + r("a") + "," + r("b") + ")"),
        ("mem-ab16-k", lambda: var("k", DISP) + "(" + r("a") + "," + r("b") + ")"),
        ("abs", lambda: var("k", DISP)),
        ("mask", lambda: r("r") + "{%k" + var("n", "[0-7]") + "}"),
        ("token", lambda: var("w", "[a-z][a-z0-9.]*")),
    ]


@scenario("parser:no-failure", LP + ".OperandsParser._process_operand_elem", ["C08", "C10"],
          doc="every operand text of grammar G is normalised without an exception, into a separator-free field")
def no_failure():
    ensure()
    obs: List[Ob] = []
    func = LP + ".OperandsParser._process_operand_elem"
    for fid, build in general_operand_shapes():
        def fn():
            return J.lp.OperandsParser(operands=[])._process_operand_elem(operand_elem=build())
        try:
            runr = sym_run(fn)
        except Unsupported as e:
            obs.append(simple_ob(f"_process_operand_elem:G:{fid}:RUN", func, "RUN", "symbolic execution completes", None, ["C08", "C10"],
                                 detail=f"unsupported: {e}"))
            continue
        for i, p in enumerate(runr.paths):
            base = f"_process_operand_elem:G:{fid}:p{i}"
            if p.kind != "ret":
                obs.append(simple_ob(base + ":EXC", func, "EXC", f"[{fid}] no operand objdump can print makes the parser fail", False, ["C08"],
                                     detail=f"{type(p.value).__name__}: {p.value}", witness=type(p.value).__name__,
                                     replay={"kind": "operand-form", "form": fid}))
                continue
            shown = runr.ctx.table.show(str.__str__(p.value))
            bad = _clean(runr.ctx, str.__str__(p.value))
            obs.append(simple_ob(base + ":CLEAN", func, "POST", f"[{fid}] the field contains no ',' '|' or '::'", bad is None, ["C10"],
                                 detail=f"may contain {bad!r}: {shown}", witness=f"{bad}:{shown}"))
    return obs


@scenario("parser:operand-list", LP + ".OperandsParser.parse", ["C09"], inlined=["parse_operands"],
          doc="number and order of operands preserved (each element normalised on its own)")
def operand_list():
    ensure()
    obs: List[Ob] = []
    func = LP + ".OperandsParser.parse"
    orig = J.lp.OperandsParser._process_operand_elem
    J.lp.OperandsParser._process_operand_elem = lambda self, operand_elem: ("norm", operand_elem)
    try:
        for sid, mk in (("three", lambda: [Name("o1"), Name("o2"), Name("o3")]), ("seq", lambda: SymSeq("ops", Name("o_k"), 0)), ("none", lambda: [])):
            runr = sym_run(lambda mk=mk: J.lp.OperandsParser(operands=mk()).parse())
            for i, p in enumerate(runr.paths):
                r = p.value
                if sid == "seq":
                    ok = p.kind == "ret" and isinstance(r, SymSeq) and r.root == "ops" and r.elem[0] == "norm" and r.elem[1].ident == "o_k"
                elif sid == "three":
                    ok = p.kind == "ret" and [x[1].ident for x in r] == ["o1", "o2", "o3"]
                else:
                    ok = p.kind == "ret" and r == []
                obs.append(simple_ob(f"OperandsParser.parse:{sid}:p{i}:POST", func, "POST", "result = map(normalise, operands): same number, same order",
                                     ok, ["C09"], detail=repr(r), witness=sid))
    finally:
        J.lp.OperandsParser._process_operand_elem = orig
    return obs


# --------------------------------------------------------------------------- pipeline (C08 INV, C10 encoder)
GP = "jasm.stringify_asm.implementations.gnu_objdump.gnu_objdump_parser_manual.ObjdumpParserManual.parse"


class _Lines:
    """the disassembly text: split("\\n") yields a sequence of lines of unknown length"""

    def split(self, sep):
        assert sep == "\n"
        return SymSeq("lines", Name("line_k"), 0)


class _LoopLog:
    def __init__(self, log, obs, base):
        self.log, self.obs, self.base = log, obs, base

    def establish(self, seq, at):
        self.log[:] = [("splice", seq.root, at)]

    def check(self, seq, at):
        # the loop may run over the already filtered results (every element is an Instruction and is consumed) or over all
        # results, skipping the others itself: in both forms the step consumes the generic element iff it is an Instruction
        consumed = [x[1] for x in self.log[1:] if x[0] == "consume"]
        is_inst = type(seq.elem).__name__ == "Instruction"
        if seq.root == "lines|filter":
            want = is_inst
        else:
            want = seq.root == "lines" and True
        ok = want and len(self.log) == 1 + len(consumed) and consumed == ([seq.elem] if is_inst else []) \
            and all(c is seq.elem and getattr(c.addr, "ident", None) == "addr(line_k)" for c in consumed)
        self.obs.append(simple_ob(self.base + ":INV", GP, "INV",
                                  "Inv preserved: the consumer has received exactly the Instruction results of the lines seen so far, in file order",
                                  ok, ["C08", "C16", "C09", "C10", "C07", "C11", "C12"], detail=repr(self.log), witness=repr(self.log)[:80]))


@scenario("parser:pipeline", GP, ["C08", "C16", "C09", "C10", "C07", "C11", "C12"], inlined=["parse_file_lines"],
          doc="every Instruction result, in order, reaches the consumer exactly once; nothing else does")
def pipeline():
    ensure()
    obs: List[Ob] = []
    inner: List[Ob] = []
    log: List[Any] = []

    class Cons:
        def consume_instruction(self, e):
            log.append(("consume", e))

        def __getattr__(self, name):
            # the parser only hands instructions over: any other use of the consumer (finalize, add_observer, ...) is recorded
            # and breaks the invariant
            return lambda *a, **k: log.append(("other:" + name,))

    def fn():
        log.clear()
        lp = J.lp
        orig = lp.parse_line
        # contract of parse_line (verified per line shape above): an Instruction carrying the line's address,
        # or a non-Instruction
        def stub(line, *a_, **k_):        # optional parameters added to parse_line are inert by contract
            # the whole outcome space of parse_line: an Instruction, a Label, a Section, or the line itself (any other text:
            # titles, blank lines, elisions, ...) -- whatever the caller makes of a non-instruction, the consumer sees none of it
            kind = ctx().choose(4, "line-kind")
            if kind == 0:
                return J.gd.Instruction(addr=Name("addr(" + line.ident + ")"), mnemonic=Name("mn(" + line.ident + ")"), operands=[])
            if kind == 1:
                return lp.Label(addr="0", name="x")
            if kind == 2 and hasattr(lp, "Section"):
                return lp.Section(name=".text") if "name" in getattr(lp.Section, "__dataclass_fields__", {"name": 1}) else lp.Label(addr="0", name="x")
            return line
        lp.parse_line = stub
        ctx().loop_contracts = {"parse": _LoopLog(log, inner, "ObjdumpParserManual.parse")}
        try:
            J.gnup.ObjdumpParserManual().parse(_Lines(), Cons())
        finally:
            lp.parse_line = orig
        return list(log)
    try:
        runr = sym_run(fn)
    except Unsupported as e:
        return [simple_ob("ObjdumpParserManual.parse:RUN", GP, "RUN", "symbolic execution of the parser loop completes", None,
                          ["C08", "C16", "C09", "C10", "C07", "C11", "C12"], detail=f"unsupported: {e}")]
    obs.extend(worst_per_name(inner))
    for i, p in enumerate(runr.paths):
        ok = p.kind == "ret" and len(p.value) == 1 and p.value[0][0] == "splice" and p.value[0][1] in ("lines|filter", "lines") and p.value[0][2] == "len"
        obs.append(simple_ob(f"ObjdumpParserManual.parse:p{i}:POST", GP, "POST",
                             "on return the consumer has received filter(is Instruction, map(parse_line, lines)), in order -- and nothing else was asked of it", ok, ["C08", "C16", "C09", "C10", "C07", "C11", "C12"],
                             detail=repr(p.value), witness=repr(p.value)[:80]))
    obs.append(simple_ob("ObjdumpParserManual.parse:COVER", GP, "POST", "the inductive step was checked (vacuity guard)", len(inner) > 0, ["C08"]))
    return obs


@scenario("parser:encoder", "jasm.global_definitions.Instruction.stringify", ["C10", "C08"],
          inlined=["CompleteConsumer.consume_instruction", "InstructionObserverConsumer._process_instruction",
                   "RemoveEmptyInstructions.observe_instruction"],
          doc="record = addr '::' mnemonic ',' operands joined by ',' then ',|'; continuation pseudo-instructions are dropped")
def encoder():
    ensure()
    obs: List[Ob] = []
    for sid, mk, want in (("0", lambda: [], "‹a›::‹m›,"), ("1", lambda: [Name("o1")], "‹a›::‹m›,‹o1›"),
                          ("3", lambda: [Name("o1"), Name("o2"), Name("o3")], "‹a›::‹m›,‹o1›,‹o2›,‹o3›"),
                          ("seq", lambda: SymSeq("ops", Name("o_k"), 1), "‹a›::‹m›,‹join(',',ops)›")):
        runr = sym_run(lambda mk=mk: J.gd.Instruction(addr=Name("a"), mnemonic=Name("m"), operands=mk()).stringify())
        for i, p in enumerate(runr.paths):
            shown = runr.ctx.table.show(p.value) if p.kind == "ret" else repr(p.value)
            obs.append(simple_ob(f"Instruction.stringify:{sid}:p{i}:POST", "jasm.global_definitions.Instruction.stringify", "POST",
                                 "text = addr '::' mnemonic ',' + ','.join(operands)", shown == want, ["C10"], detail=shown, witness=shown))
    # consume_instruction: appends stringify()+',|' for a real instruction, nothing for the continuation pseudo-instruction
    import regex as real_regex
    for kind in ("real", "empty", "repeated"):
        def fn(kind=kind):
            mo = J.mobs.MatchedObserver()
            c = J.consumer.CompleteConsumer(regex_rule="x", matched_observer=mo, matching_mode=J.gd.MatchingSearchMode.first_find,
                                            return_only_address=False)
            for o in J.match.ObserverBuilder().get_instruction_observers():
                c.add_observer(o)
            mn = Name("m") if kind != "empty" else "empty"
            c.consume_instruction(J.gd.Instruction(addr=Name("a"), mnemonic=mn, operands=[Name("o1")]))
            if kind == "repeated":
                # the same instruction text at the same address again (sections of an object file restart at 0; two equal stubs):
                # one record per consumed instruction, equal or not
                c.consume_instruction(J.gd.Instruction(addr=Name("a"), mnemonic=mn, operands=[Name("o1")]))
            c.consume_instruction(J.gd.Instruction(addr=Name("a2"), mnemonic=Name("m2"), operands=[]))
            return list(c._all_instructions_list)
        runr = sym_run(fn)
        for i, p in enumerate(runr.paths):
            shown = [runr.ctx.table.show(x) for x in p.value] if p.kind == "ret" else repr(p.value)
            want = (["‹a›::‹m›,‹o1›,|"] * (2 if kind == "repeated" else 1) if kind != "empty" else []) + ["‹a2›::‹m2›,,|"]
            obs.append(simple_ob(f"consume_instruction:{kind}:p{i}:POST", "jasm.consumer.CompleteConsumer.consume_instruction", "POST",
                                 ("an instruction adds exactly its record text + ',|' (an instruction without operands has one empty field); "
                                  "an instruction equal to the previous one adds its record again"
                                  if kind != "empty" else "the byte-continuation pseudo-instruction 'empty' adds nothing"),
                                 shown == want, ["C10", "C08"], detail=repr(shown), witness=repr(shown)))
    return obs


# --------------------------------------------------------------------------- observer pipeline (which instructions enter the stream)
PI = "jasm.consumer.InstructionObserverConsumer._process_instruction"


class _StubObserver:
    """an instruction observer whose answer for the instruction is any of: drop it (None), pass it on unchanged, replace it"""
    def __init__(self, ident: str, log: list):
        self.ident, self.log = ident, log

    def observe_instruction(self, inst):
        self.log.append((self.ident, inst))
        k = ctx().choose(3, f"observer-{self.ident}")
        if k == 0:
            return None
        if k == 1:
            return inst
        return J.gd.Instruction(addr=inst.addr, mnemonic=inst.mnemonic, operands=[Name("repl-" + self.ident)])


@scenario("pipeline:observers", PI, ["C08", "C07", "C10", "C18", "C12", "C16", "C11", "C04", "C03", "C01", "C02"],
          doc="an instruction enters the stream iff no installed observer drops it; observers are consulted in order, each at most once, "
              "on the instruction itself; what is encoded is the last observer's answer")
def observers_pipeline():
    ensure()
    obs: List[Ob] = []
    PR = ["C08", "C07", "C10", "C18", "C16"]     # C16: a continuation line (byte-column layout) must never reach the stream
    # the installed list is [RemoveEmptyInstructions] or [RemoveEmptyInstructions, ValidAddrObserver] (validaddr:install): lengths 0-3 cover it
    for n in (0, 1, 2, 3):
        def fn(n=n):
            log: list = []
            c = J.consumer.CompleteConsumer(regex_rule="x", matched_observer=J.mobs.MatchedObserver(),
                                            matching_mode=J.gd.MatchingSearchMode.first_find, return_only_address=False)
            for k in range(n):
                c.add_observer(_StubObserver(str(k), log))
            inst = J.gd.Instruction(addr=Name("a"), mnemonic=Name("m"), operands=[Name("o1")])
            return [c._process_instruction(inst), inst, log]
        run = sym_run(fn)
        for i, p in enumerate(run.paths):
            base = f"_process_instruction:n={n}:p{i}"
            if p.kind != "ret":
                obs.append(simple_ob(base + ":EXC", PI, "EXC", "no exception", False, PR, detail=repr(p.value), witness=str(n)))
                continue
            res, inst, log = p.value
            answers = []        # per consulted observer: 0 drop / 1 same / 2 replaced, read off the path condition
            for k in range(n):
                cs = [str(c_) for c_ in p.pc if f"choice!observer-{k}!" in str(c_)]
                if not cs:
                    answers.append(None)
                    continue
                pos = [c_ for c_ in cs if not c_.startswith("Not(")]
                answers.append(0 if any(c_.endswith("!0") for c_ in pos) else (1 if pos else 2))
            consulted = [a for a in answers if a is not None]
            dropped = 0 in consulted
            obs.append(simple_ob(base + ":POST-drop", PI, "POST",
                                 "the instruction is dropped (None) iff one of the observers consulted in order drops it; "
                                 "no observer can bring a dropped instruction back",
                                 (res is None) == dropped and (not dropped or consulted[-1] == 0), PR, detail=f"answers={answers} result={res!r}",
                                 witness=f"n={n} answers={answers}"))
            order_ok = [x[0] for x in log] == [str(k) for k in range(len(log))] and all(x[1] is inst for x in log)
            all_asked = dropped or len(log) == n
            obs.append(simple_ob(base + ":FRAME-order", PI, "FRAME",
                                 "observers are consulted in installation order, each at most once, on the instruction itself; "
                                 "every installed observer is consulted unless an earlier one dropped the instruction",
                                 order_ok and all_asked, PR, detail=f"log={[x[0] for x in log]}", witness=f"n={n} answers={answers}"))
            if not dropped:
                if n == 0:
                    okl = res is inst
                else:
                    okl = (res is inst) if consulted[-1] == 1 else (res is not inst and res is not None and list(res.operands) and
                                                                    getattr(res.operands[0], "ident", "") == f"repl-{n - 1}")
                obs.append(simple_ob(base + ":POST-last", PI, "POST", "a kept instruction is encoded as the last observer answered it",
                                     bool(okl), ["C18", "C08"], detail=repr(res), witness=f"n={n} answers={answers}"))
    # consume_instruction after ANY number of earlier instructions: the text consumed so far grows by exactly this record
    from vf.rt import Splice, join as _join
    CI = "jasm.consumer.CompleteConsumer.consume_instruction"

    for mode_name in ("first_find", "all_finds"):
        engine_calls: List[Any] = []

        class _Rx:
            def __getattr__(self, name):
                def call(*a, **k):
                    engine_calls.append(name)
                    return None if name in ("search", "match", "fullmatch") else []
                return call

        def fn3(mode_name=mode_name):
            engine_calls.clear()
            orig_rx = J.consumer.regex
            J.consumer.regex = _Rx()
            try:
                mo = J.mobs.MatchedObserver()
                c = J.consumer.CompleteConsumer(regex_rule="x", matched_observer=mo,
                                                matching_mode=getattr(J.gd.MatchingSearchMode, mode_name), return_only_address=False)
                for o in J.match.ObserverBuilder().get_instruction_observers():
                    c.add_observer(o)
                c._all_instructions_list = [Splice(SymSeq("records", Name("rec_k"), 0))]
                c.consume_instruction(J.gd.Instruction(addr=Name("a"), mnemonic=Name("m"), operands=[Name("o1")]))
                pending = c._all_instructions + _join("", c._all_instructions_list)
                return [pending, list(engine_calls), mo.matched, list(mo.addr_list)]
            finally:
                J.consumer.regex = orig_rx
        try:
            run3 = sym_run(fn3)
            for i, p in enumerate(run3.paths):
                if p.kind != "ret":
                    obs.append(simple_ob(f"consume_instruction:any-prefix:{mode_name}:p{i}:EXC", CI, "EXC", "no exception", False, ["C08", "C10"],
                                         detail=repr(p.value), witness=mode_name))
                    continue
                pend, ecalls, mflag, alist = p.value
                shown = run3.ctx.table.show(pend)
                obs.append(simple_ob(f"consume_instruction:any-prefix:{mode_name}:p{i}:POST", CI, "POST",
                                     "after any number of earlier instructions the consumed text (already folded + pending) is the earlier text followed by "
                                     "exactly this instruction's record", shown == "‹join('',records)›‹a›::‹m›,‹o1›,|", ["C08", "C10", "C07"],
                                     detail=shown, witness=shown))
                obs.append(simple_ob(f"consume_instruction:any-prefix:{mode_name}:p{i}:FRAME-no-search", CI, "FRAME",
                                     "consuming an instruction never runs the regex engine and never touches the matched observer: the rule is "
                                     "matched once, on the WHOLE stream, by finalize (a search on a prefix can see a `$not` / end-of-stream differently)",
                                     ecalls == [] and mflag is False and alist == [], ["C11", "C12", "C04", "C03", "C01", "C02", "C07"],
                                     detail=f"engine calls {ecalls}, matched={mflag}, hits={alist}", witness=repr(ecalls)))
        except Exception as e:    # noqa
            obs.append(simple_ob(f"consume_instruction:any-prefix:{mode_name}:RUN", CI, "RUN", "symbolic execution completes", None, ["C08", "C10"],
                                 detail=f"unsupported: {e}"))
    # RemoveEmptyInstructions: drops exactly the byte-continuation pseudo-instruction, returns every other instruction itself
    RE = "jasm.stringify_asm.implementations.observers.RemoveEmptyInstructions.observe_instruction"
    for kind in ("real", "empty"):
        def fn2(kind=kind):
            inst = J.gd.Instruction(addr=Name("a"), mnemonic=Name("m") if kind == "real" else "empty", operands=[Name("o1")])
            return [J.observers.RemoveEmptyInstructions().observe_instruction(inst), inst]
        run = sym_run(fn2)
        for i, p in enumerate(run.paths):
            ok = p.kind == "ret" and ((p.value[0] is p.value[1]) if kind == "real" else p.value[0] is None)
            obs.append(simple_ob(f"RemoveEmptyInstructions:{kind}:p{i}:POST", RE, "POST",
                                 "a real instruction is returned itself, unchanged" if kind == "real" else "the pseudo-instruction 'empty' is dropped",
                                 ok, ["C08", "C07", "C10", "C16"], detail=repr(p.value), witness=kind))
    return obs


# --------------------------------------------------------------------------- parse_line is a function of its line only
@scenario("parser:pure", LP + ".parse_line", ["C07", "C08", "C16", "C10", "C14"],
          doc="parse_line keeps no state: an earlier result is a separate object that later calls (same body, other address) do not change, "
              "and a repeated line gives an equal result")
def parse_line_pure():
    ensure()
    obs: List[Ob] = []
    func = LP + ".parse_line"
    bodies = ["55                   \tpush   %rbp", "c3                   \tret", "e8 00 00 00 00       \tcall   401010 <f>",
              "48 8b 45 f8          \tmov    -0x8(%rbp),%rax", "00 00 00 "]
    for bi, body in enumerate(bodies):
        lines = [f"  40100{k}:\t{body}" for k in (0, 5, 9)] + [f"  401000:\t{body}"]
        res, snaps = [], []
        for ln in lines:
            r = J.lp.parse_line(ln)
            res.append(r)
            snaps.append((getattr(r, "addr", None), getattr(r, "mnemonic", None), list(getattr(r, "operands", []) or [])) if not isinstance(r, str) else r)
        after = [(getattr(r, "addr", None), getattr(r, "mnemonic", None), list(getattr(r, "operands", []) or [])) if not isinstance(r, str) else r for r in res]
        is_inst = [isinstance(r, J.gd.Instruction) for r in res]
        distinct = all(res[i] is not res[j] for i in range(len(res)) for j in range(i) if is_inst[i] and is_inst[j])
        addrs_ok = all((not is_inst[k]) or after[k][0] == lines[k].split(":")[0].strip() for k in range(len(res)))
        obs.append(simple_ob(f"parse_line:pure:body{bi}:FRAME", func, "FRAME",
                             "results of earlier calls are unchanged by later calls on lines with the same body (each carries ITS line's address); "
                             "no two calls share a result object; the same line parsed again gives an equal result",
                             after == snaps and distinct and addrs_ok and after[0] == after[3], ["C07", "C08", "C16", "C10", "C14"],
                             detail=f"at call time {snaps} / afterwards {after}", witness=body,
                             replay=None))
    return obs


# --------------------------------------------------------------------------- splitter / normaliser on adversarial concrete operand texts
@scenario("parser:split-concrete", LP + ".LineParser.get_splitted_operands", ["C09", "C10", "C06", "C08", "C16"],
          doc="concrete operand lists with long register names, deep displacements and segment prefixes: split and normal form agree with the "
              "independent tab/parenthesis-depth decoder (oracle/objdump_model.py)")
def split_concrete():
    ensure()
    from oracle import objdump_model as OM
    obs: List[Ob] = []
    regs = ["%rax", "%r8", "%r10d", "%r15d", "%r13", "%xmm15", "%ymm10", "%eax", "%bx", "%r9b", "%r12w"]
    disps = ["", "0x8", "-0x8", "0x1dc59", "-0x7fffffff", "0x0", "0xa", "0x10", "0x1b", "0xd"]
    mems = []
    for a in regs[:9]:
        for b in ("%rbx", "%r10d", "%r15d", "%r14"):
            for d in disps[:4]:
                mems.append(f"{d}({a},{b},{'1248'[len(mems) % 4]})")
    for b in ("%rax", "%r10d", "%r15d"):
        for d in ("0x0", "0x10", "-0x8"):
            mems.append(f"{d}(,{b},8)")
    for a in regs[:8]:
        for d in disps:
            mems.append(f"{d}({a})")
    cases = [f"{m},%rdx" for m in mems[::3]] + [f"%rcx,{m}" for m in mems[1::3]] + [f"$0x1,{m},%rsi" for m in mems[2::7]] + \
            ["%rax", "$0x10,%eax", "%xmm0,%xmm1,%xmm2", "401000", "*%rax", "*0x8(%rip)"]
    f_split = J.lp.LineParser.get_splitted_operands
    for s_ in cases:
        want = OM.split_operands(s_)
        try:
            got = list(f_split(s_))
        except Exception as e:  # noqa
            got = repr(e)
        obs.append(simple_ob(f"get_splitted_operands:concrete:{s_}:POST", LP + ".LineParser.get_splitted_operands", "POST",
                             f"{s_!r} splits at the commas outside parentheses into {want}", got == want, ["C09", "C10"],
                             detail=repr(got), witness=f"{s_} -> {got}",
                             replay={"kind": "call", "target": "jasm.stringify_asm.implementations.gnu_objdump.asm_manual_parser_w_regex:LineParser.get_splitted_operands",
                                     "args": [s_], "expect": want}))
    # operand texts outside the normal forms of C09 (AVX-512 masks / broadcasts, x87 stack registers, segment prefixes, indirect
    # targets): whatever text they are given, the fields stay separator-free and their number is the number of top-level operands
    exotic = ["%zmm2,(%rax,%zmm1,4){%k1}", "(%rdx,%rcx,4){1to16},%zmm1,%zmm2", "%zmm2,(%rdi,%rsi,8){%k1}", "0x40(%rax,%zmm1,4){%k1},%zmm0",
              "%zmm3{%k2},%zmm1", "(%rdx){1to16},%zmm1,%zmm2", "%st(1),%st", "%st,%st(3)", "%fs:0x0(%rax,%rax,1)", "%gs:(%rcx,%rbx,4),%eax",
              "%fs:0x10(,%rax,8),%rdx", "*0x8(%rax,%rbx,8)", "*%fs:0x10(,%rax,8)", "%es:(%rdi),%al", "$0x1,(%rax,%rbx,2){%k1}"]
    for s_ in exotic:
        line = f"  401000:\t62 f1 7c 48 28 00    \tvop    {s_}"
        nops = len(OM.split_operands(s_))
        try:
            r = J.lp.parse_line(line)
            ops_ = list(r.operands) if isinstance(r, J.gd.Instruction) else None
        except Exception as e:  # noqa
            ops_ = repr(e)
        ok = isinstance(ops_, list) and len(ops_) == nops and all(isinstance(o_, str) and not any(c_ in o_ for c_ in (",", "|", "::")) for o_ in ops_)
        obs.append(simple_ob(f"parse_line:exotic:{s_}:CLEAN", LP + ".parse_line", "POST",
                             f"operand text {s_!r}: {nops} operand field(s), none containing ',' '|' or '::'", ok, ["C10", "C09"],
                             detail=repr(ops_), witness=f"{s_} -> {ops_}"))
    # whole lines whose LAST characters are letters / digits / punctuation of every kind (operand-less mnemonics ending in r, n,
    # t, ...; with and without trailing blanks, comment, annotation): the decoded instruction is the same in every presentation
    for mn in ("vzeroupper", "sysenter", "fsin", "monitor", "fpatan", "ret", "leave", "nop", "cqto", "hlt", "syscall", "iretq", "int3", "pushf", "rdtscp"):
        for tail in ("", " ", "   ", "        # comment text", " # r", "\t# n"):
            for pad in ("  ", "", "    "):
                line = f"{pad}401008:\tc5 f8 77             \t{mn}{tail}"
                want = OM.decode_line(line)
                try:
                    r = J.lp.parse_line(line)
                    got = (r.addr, r.mnemonic, list(r.operands)) if isinstance(r, J.gd.Instruction) else repr(r)
                except Exception as e:  # noqa
                    got = repr(e)
                obs.append(simple_ob(f"parse_line:concrete-line:{mn}:{tail!r}:{len(pad)}:POST", LP + ".parse_line", "POST",
                                     f"{mn!r} with tail {tail!r} decodes to {want}", got == want, ["C08", "C16", "C10"], detail=repr(got),
                                     witness=f"{line!r} -> {got}"))
    # lines at the limits of the line grammar: very long annotations / comments (C++ symbols), a prefix together with a branch hint,
    # 1..15 raw bytes on one line (objdump --insn-width), long addresses, many blanks
    from vf.sweeps import limit_lines
    for tag, line in limit_lines():
        want = OM.decode_line(line)
        try:
            r = J.lp.parse_line(line)
            got = (r.addr, r.mnemonic, list(r.operands)) if isinstance(r, J.gd.Instruction) else repr(r)
        except Exception as e:  # noqa
            got = repr(e)
        obs.append(simple_ob(f"parse_line:limit-line:{tag}:POST", LP + ".parse_line", "POST",
                             f"line at a limit of the grammar ({tag}) decodes to {str(want)[:120]}", got == want, ["C08", "C16", "C10", "C09"],
                             detail=repr(got)[:300], witness=f"{line[:80]!r}... -> {str(got)[:120]}", replay={"kind": "line", "line": line}))
    from vf.sweeps import other_lines
    for tag, line in other_lines():
        try:
            r = J.lp.parse_line(line)
            ok, got = not isinstance(r, J.gd.Instruction), type(r).__name__
        except Exception as e:  # noqa
            ok, got = False, repr(e)
        obs.append(simple_ob(f"parse_line:other-line:{tag}:POST", LP + ".parse_line", "POST",
                             f"a non-instruction line ({tag}) is read as text, not as a pattern: no failure, no instruction", ok, ["C08", "C16"],
                             detail=got[:200], witness=f"{line[:60]!r} -> {got[:80]}", replay={"kind": "line", "line": line, "instruction": False}))
    # normal form of every memory text (as the operand of an lea line, through parse_line)
    for m in mems:
        line = f"  401000:\t48 8d 04 00          \tlea    {m},%rsi"
        want = OM.decode_line(line)
        try:
            r = J.lp.parse_line(line)
            got = (r.addr, r.mnemonic, list(r.operands)) if isinstance(r, J.gd.Instruction) else repr(r)
        except Exception as e:  # noqa
            got = repr(e)
        obs.append(simple_ob(f"parse_line:concrete-mem:{m}:POST", LP + ".parse_line", "POST",
                             f"lea {m},%rsi decodes to {want}", got == want, ["C09", "C06", "C10"], detail=repr(got), witness=f"{m} -> {got}"))
    return obs
