"""C01 (top level): YAML -> untyped tree -> typed tree -> regex.
Yaml2Regex._get_pattern (implicit $and), _generate_rule_tree, produce_regex and
PatternNodeBuilderNoParents, on symbolic names / a symbolic item list."""
from __future__ import annotations

from typing import Any, Dict, List

from vf import grammar as G
from vf import pyvc, rx, vc
from vf.core import Ob, lang_ob, norm, scenario, simple_ob, sym_run
from vf.jasmrt import J, ensure, set_flags
from vf.pyvc import Name, SymSeq

Y = "jasm.jasm_regex.yaml2regex.Yaml2Regex"
PB = "jasm.jasm_regex.tree_generators.pattern_node_builder.PatternNodeBuilderNoParents"
P = ["C01"]


def _y2r(loaded, macros=None):
    y = J.y2r.Yaml2Regex.__new__(J.y2r.Yaml2Regex)
    y.loaded_file = loaded
    y.macros_from_terminal_filepath = macros
    return y


@scenario("toplevel:_get_pattern", Y + "._get_pattern", ["C01", "C17"], doc="pattern list is wrapped in an implicit $and; no macros -> no expansion")
def get_pattern():
    ensure()
    obs: List[Ob] = []
    for shape, mk in (("k2", lambda: [Name("w1"), Name("w2")]), ("seq", lambda: SymSeq("items", Name("wg"), 1))):
        def fn():
            pat = mk()
            res = _y2r({"pattern": pat})._get_pattern()
            return [res, isinstance(res, dict) and list(res.keys()) == ["$and"] and res["$and"] is pat]
        run = sym_run(fn)
        for i, p in enumerate(run.paths):
            ok = p.kind == "ret" and p.value[1] is True
            obs.append(simple_ob(f"_get_pattern:{shape}:p{i}:POST", Y + "._get_pattern", "POST",
                                 "returns {'$and': <the pattern list itself>} (items, order and length untouched)", ok, P,
                                 detail=repr(p.value)[:200], witness=repr(p.value)[:80]))
    # wrongly typed macros entry raises
    run = sym_run(lambda: _y2r({"pattern": [Name("w1")], "macros": {"a": 1}})._get_pattern())
    for i, p in enumerate(run.paths):
        obs.append(simple_ob(f"_get_pattern:badmacros:p{i}:EXC", Y + "._get_pattern", "EXC", "a `macros` entry that is not a list raises ValueError",
                             p.kind == "exc" and isinstance(p.value, ValueError), ["C17"], detail=repr(p.value), witness=repr(p.value)[:60]))
    return obs


@scenario("toplevel:untyped-builder", PB, ["C01", "C03", "C06", "C17", "C02", "C14"], inlined=["_handle_simple_case", "_handle_dict_case",
                                                                              "_handle_tuple_case", "_get_name", "_get_children",
                                                                              "_get_simple_child", "build"],
          doc="YAML item -> untyped node: name, children in order")
def untyped_builder():
    ensure()
    obs: List[Ob] = []
    sc = object()

    def names_of(node):
        ch = node.children
        if isinstance(ch, SymSeq):
            return ("seq", ch.root, getattr(ch.elem, "name", None))
        return None if ch is None else [c.name for c in ch]

    cases = [
        ("str", lambda: Name("w"), lambda n: isinstance(n.name, Name) and n.name.ident == "w" and n.children is None),
        ("dict-list", lambda: {Name("w"): [Name("v1"), Name("v2")]},
         lambda n: n.name.ident == "w" and [c.name.ident for c in n.children] == ["v1", "v2"] and all(c.children is None for c in n.children)),
        ("dict-seq", lambda: {Name("w"): SymSeq("ops", Name("vg"), 1)},
         lambda n: n.name.ident == "w" and isinstance(n.children, SymSeq) and n.children.root == "ops" and n.children.elem.name.ident == "vg"),
        ("op-list", lambda: {"$or": [Name("v1"), {Name("w2"): [Name("v3")]}]},
         lambda n: n.name == "$or" and n.children[0].name.ident == "v1" and n.children[1].name.ident == "w2"
         and [c.name.ident for c in n.children[1].children] == ["v3"]),
        ("deref", lambda: {"$deref": {"main_reg": Name("a"), "constant_offset": Name("k")}},
         lambda n: n.name == "$deref" and [c.name for c in n.children] == ["main_reg", "constant_offset"]
         and [c.children[0].name.ident for c in n.children] == ["a", "k"]),
        # YAML scalars that are falsy in Python (the integer 0 -- also what an unquoted 0x0 loads as --, the empty text) are values
        ("deref-zero", lambda: {"$deref": {"main_reg": Name("a"), "constant_offset": 0}},
         lambda n: [c.name for c in n.children] == ["main_reg", "constant_offset"] and n.children[0].children[0].name.ident == "a"
         and [c.name for c in n.children[1].children] == [0] and type(n.children[1].children[0].name) is int),
        ("deref-zero-first", lambda: {"$deref": {"main_reg": 0, "register_multiplier": Name("b"), "constant_multiplier": 0, "constant_offset": 0}},
         lambda n: [c.name for c in n.children] == ["main_reg", "register_multiplier", "constant_multiplier", "constant_offset"]
         and [c.children[0].name for c in (n.children[0], n.children[2], n.children[3])] == [0, 0, 0]),
        ("dict-list-zero", lambda: {Name("w"): [0, Name("v2"), 0]},
         lambda n: n.name.ident == "w" and [getattr(c.name, "ident", c.name) for c in n.children] == [0, "v2", 0]),
        ("int-item", lambda: 0, lambda n: n.name == 0 and type(n.name) is int and n.children is None),
    ]
    # one child per item of the body, whatever the item is: an operator nested in an operator stays ONE child with its own items
    # (`$and_any_order: [a, {$and: [b, c]}]` permutes two units, not three) -- every pair of operators, at both positions
    OPS = ("$and", "$or", "$and_any_order", "$not")
    for op in OPS:
        for op2 in OPS:
            if op == op2 and op in ("$and", "$or"):     # flattening `$and` in `$and` / `$or` in `$or` is associativity: not this contract's business
                continue

            def mk_nest(op=op, op2=op2):
                return {op: [Name("v1"), {op2: [Name("v2"), Name("v3")]}, Name("v4"), {op2: [Name("v5")]}]}

            def post_nest(n, op=op, op2=op2):
                c = n.children
                return (n.name == op and len(c) == 4 and c[0].name.ident == "v1" and c[0].children is None and c[2].name.ident == "v4"
                        and c[1].name == op2 and [x.name.ident for x in c[1].children] == ["v2", "v3"] and all(x.children is None for x in c[1].children)
                        and c[3].name == op2 and [x.name.ident for x in c[3].children] == ["v5"])
            cases.append((f"op-nest:{op}:{op2}", mk_nest, post_nest))
    for cid, mk, post in cases:
        run = sym_run(lambda mk=mk: J.builder.PatternNodeBuilderNoParents(mk(), sc).build())
        for i, p in enumerate(run.paths):
            try:
                ok = p.kind == "ret" and bool(post(p.value)) and p.value.shared_context is sc
            except (TypeError, AttributeError, IndexError):     # the node does not even have the required shape
                ok = False
            obs.append(simple_ob(f"PatternNodeBuilderNoParents:{cid}:p{i}:POST", PB, "POST",
                                 f"[{cid}] node carries the item's name, its children are the body's items in order, one shared context",
                                 ok, ["C01", "C03", "C06"], detail=repr(p.value)[:120], witness=cid))
    # FRAME: the YAML object an item is built from is not modified, and building it a second time (YAML aliases share one object
    # between several items; produce_regex() may be called twice) gives the same node -- name, repetition bounds, children
    import copy as _copy

    def shape_of(n):
        t = getattr(n, "times", None)
        ch = n.children
        return (repr(n.name), (getattr(t, "min_times", None), getattr(t, "max_times", None)),
                None if ch is None else [shape_of(c) for c in ch])
    frame_cases = [
        ("sibling-times", {"push": ["%r"], "times": 2}),
        ("sibling-times-range", {"push": ["%r"], "times": {"min": 2, "max": 3}}),
        ("times-first", {"times": 2, "mov": ["%rax"]}) if False else ("inner-times", {"call": {"times": 3}}),
        ("group-times", {"$or": ["push", "pop"], "times": {"min": 2, "max": 3}}),
        ("and-times", {"$and": ["push", {"mov": ["rsp", "rbp"]}], "times": 2}),
        ("deref-times", {"$deref": {"main_reg": "rax", "constant_offset": "0x8"}, "times": 2}),
        ("not-times", {"$not": ["ret"], "times": {"min": 1, "max": 8}}),
        ("plain", {"mov": ["rax", {"$deref": {"main_reg": "rbx"}}]}),
    ]
    for cid, item in frame_cases:
        before = _copy.deepcopy(item)
        try:
            n1 = J.builder.PatternNodeBuilderNoParents(item, sc).build()
            after1 = _copy.deepcopy(item)
            n2 = J.builder.PatternNodeBuilderNoParents(item, sc).build()
            ok = after1 == before and item == before and shape_of(n1) == shape_of(n2)
            detail = f"item before {before} after {item}; first {shape_of(n1)} second {shape_of(n2)}"
        except Exception as e:  # noqa
            ok, detail = False, repr(e)
        obs.append(simple_ob(f"PatternNodeBuilderNoParents:{cid}:FRAME-input", PB, "FRAME",
                             f"[{cid}] the item is not modified by being built, and a second build of the same object gives the same node "
                             "(same name, same repetition bounds, same children)", ok, ["C02", "C01", "C03", "C14"], detail=detail[:400], witness=cid))
    for cid, mk in (("float", lambda: 1.5), ("none", lambda: None), ("scalar-body", lambda: {Name("w"): 3})):
        run = sym_run(lambda mk=mk: J.builder.PatternNodeBuilderNoParents(mk(), sc).build())
        for i, p in enumerate(run.paths):
            obs.append(simple_ob(f"PatternNodeBuilderNoParents:{cid}:p{i}:EXC", PB, "EXC", f"[{cid}] a wrongly typed item raises (ValueError / TypeError)",
                                 p.kind == "exc", ["C17"], detail=repr(p.value), witness=cid))
    return obs


@scenario("toplevel:produce_regex", Y + ".produce_regex", ["C01", "C07", "C11", "C14", "C13", "C19", "C02"],
          inlined=["_get_pattern", "_generate_rule_tree", "context_initializer", "PatternNodeBuilderNoParents",
                   "GeneralPatternNodeBuilder.build (whole chain)", "every get_regex of the tree"],
          doc="whole compilation of item-list patterns with opaque literal names, 4 flag settings")
def produce_regex():
    ensure()
    obs: List[Ob] = []
    W = r"[^,|]*"

    def win(n, full):
        return n if full else f"{W}{n}{W}"
    pats = {
        "one-item": (lambda: [Name("w1")], lambda fm, fo, N: f"[0-9a-f]+::{win(N('w1'), fm)},[^|]*\\|"),
        "two-items-operands": (lambda: [Name("w1"), {Name("w2"): [Name("v1"), Name("v2")]}],
                               lambda fm, fo, N: f"[0-9a-f]+::{win(N('w1'), fm)},[^|]*\\|"
                                                 f"[0-9a-f]+::{win(N('w2'), fm)},{win(N('v1'), fo)},{win(N('v2'), fo)},[^|]*\\|"),
        "operand-then-item": (lambda: [{Name("w1"): [Name("v1")]}, Name("w2")],
                              lambda fm, fo, N: f"[0-9a-f]+::{win(N('w1'), fm)},{win(N('v1'), fo)},[^|]*\\|"
                                                f"[0-9a-f]+::{win(N('w2'), fm)},[^|]*\\|"),
    }
    # FRAME: a compilation reads the loaded document, it does not consume it -- the document is unchanged afterwards and a second
    # produce_regex() on the same object gives the same regex (concrete rules with macros, arguments, config and times)
    import copy as _copy
    docs = {
        "plain": {"pattern": ["push", {"mov": ["rsp", "rbp"]}]},
        "config": {"config": {"style": "att", "mnemonics-full-match": True, "sections": [".text"], "valid_addr_range": {"min": "0x10", "max": "0x20"}},
                   "pattern": [{"call": ["valid_addr"]}]},
        "macros": {"macros": [{"name": "@m", "pattern": "mov"}, {"name": "@r", "pattern": "ax"}], "pattern": ["@m", {"push": ["%r@r"]}, {"add": ["%r@r", "%rcx"]}]},
        "macro-args": {"macros": [{"name": "@z", "args": ["reg"], "pattern": [{"xor": ["reg", "reg"]}]}],
                       "pattern": [{"@z": {"reg": "eax"}}, {"@z": {"reg": "ebx"}}]},
        "macro-list-body": {"macros": [{"name": "@blk", "pattern": [{"$or": ["push", "pop"]}]}], "pattern": ["@blk", {"@blk": {"times": 2}}]},
        "times-inside-deref": {"pattern": [{"lea": [{"$deref": {"main_reg": "rax", "times": 2}}, "rbx"]},
                                           {"lea": [{"$deref": {"constant_offset": "0x8", "times": {"min": 0, "max": 1}, "main_reg": "rbx"}}]}]},
        "times": {"pattern": [{"push": ["%r"], "times": 2}, {"mov": [{"$deref": {"main_reg": "rax"}, "times": {"min": 1, "max": 2}}, "rbx"]}]},
    }
    for did, doc in docs.items():
        before = _copy.deepcopy(doc)
        try:
            y = _y2r(doc)
            J.gd.JASMConfig().load_config(dict(doc.get("config", {})))
            r1 = y.produce_regex()
            mid = _copy.deepcopy(doc)
            r2 = y.produce_regex()
            ok = mid == before and doc == before and r1 == r2 and isinstance(r1, str)
            detail = f"document changed: {doc != before}; first == second regex: {r1 == r2}"
        except Exception as e:  # noqa
            ok, detail = False, repr(e)
        obs.append(simple_ob(f"produce_regex:{did}:FRAME-document", Y + ".produce_regex", "FRAME",
                             f"[{did}] the loaded rule document (pattern, macros, config) is not modified by a compilation, and compiling it again "
                             "from the same object gives the same regex", ok, ["C14", "C13", "C19", "C02", "C01"], detail=detail[:300], witness=did))
    for pid, (mk, spec) in pats.items():
        for fm in (False, True):
            for fo in (False, True):
                def fn():
                    y = _y2r({"pattern": mk(), "config": {}})
                    set_flags(fm, fo)
                    return y.produce_regex()
                run = sym_run(fn)
                tb = run.ctx.table
                pyvc.CUR = run.ctx
                try:
                    sp = spec(fm, fo, lambda i: str.__str__(Name(i)))
                finally:
                    pyvc.CUR = None
                for i, p in enumerate(run.paths):
                    base = f"produce_regex:{pid}:fm={int(fm)}:fo={int(fo)}:p{i}"
                    if p.kind != "ret":
                        obs.append(simple_ob(base + ":EXC", Y + ".produce_regex", "EXC", "no exception", False, P, detail=repr(p.value), witness="exc"))
                        continue
                    lv: Dict[str, str] = {}
                    cb, sb = norm(rx.parse(p.value, tb).ast, lv), norm(rx.parse(sp, tb).ast, lv)
                    rp = {"kind": "rule", "pattern_id": pid, "fm": fm, "fo": fo, "level": G.INST}
                    obs.append(lang_ob(base + ":DEN", Y + ".produce_regex", "DEN",
                                       f"{tb.show(p.value)} == consecutive records, one per item, names positional ({tb.show(sp)})",
                                       lambda: vc.den(cb, sb, G.INST, lv), ["C01"], rp))
                    obs.append(lang_ob(base + ":START-a", Y + ".produce_regex", "START", "matches begin at a record start / in an address",
                                       lambda: vc.start_a(cb, lv), ["C07", "C11", "C01"], rp))
                    obs.append(lang_ob(base + ":END", Y + ".produce_regex", "END", "matches end at a record end",
                                       lambda: vc.end(cb, G.INST, lv), ["C07", "C11", "C01"], rp))
    return obs
