"""Contracts of the regex-producing node classes (DESIGN 3.3/3.4, section 6 C01-C07).

Every scenario runs the REAL get_regex() of the class (instrumented text of the current tree)
on symbolic inputs: opaque literal names, opaque closed child regexes (stubs under the base
contract of their level), a symbolic sequence of children, symbolic `times`, and each setting
of the two full-match flags loaded through the real JASMConfig.  The postconditions are the
regular-language VCs CLOSED / DEN / END / ENTRY / START against a specification written from
the property text (spec_* functions below, unbounded `*`, explicit separators).
"""
from __future__ import annotations

import itertools
from typing import Any, Callable, Dict, List, Optional, Sequence

import z3

from vf import grammar as G
from vf import pyvc, rx, vc
from vf.core import (Ob, PROVED, REFUTED, UNDECIDED, CheckerError, lang_ob, norm, scenario, sequence_safe, simple_ob,
                     sym_run, z3_ob, z3_valid)
from vf.jasmrt import J, child_stub, child_text, ensure, node_data, set_flags
from vf.pyvc import Name, SymSeq, ctx
from vf.rx import Unsupported

HEXADDR = "[0-9a-f]+::"
FIELD_ANY = "[^,|]*"
REST_OF_RECORD = r"[^|]*\|"

TIMES_SHAPES = ["one", "sym", (0, 1), (0, 2), (2, 2), (1, 3)]
TIMES_SHAPES_QUICK = ["one", "sym", (0, 2), (2, 2)]


def _times(shape):
    if shape == "one":
        return J.gd.TimesType(1, 1), None, None
    if shape == "sym":
        m, n = pyvc.sym_int("m"), pyvc.sym_int("n")
        pyvc.assume(z3.And(m.t >= 0, m.t <= n.t))
        return J.gd.TimesType(m, n), m, n
    a, b = shape
    return J.gd.TimesType(a, b), a, b


def node_obligations(func: str, scen: str, props: Sequence[str], level: str,
                     build: Callable[[Any], Callable[[], str]],
                     spec_body: Callable[[], str], levels: Dict[str, str],
                     want_start: bool = True, replay: Optional[Dict[str, Any]] = None,
                     shapes: Sequence[Any] = TIMES_SHAPES, body_nullable: bool = False,
                     pinned: Optional[Callable[[], str]] = None, unit: bool = False, ncaps: int = 0) -> List[Ob]:
    """run the real builder for every `times` shape and discharge the node contract"""
    obs: List[Ob] = []
    for shape in shapes:
        holder: Dict[str, Any] = {}

        def fn():
            t, m, n = _times(shape)
            holder["m"], holder["n"] = m, n
            return build(t)()
        try:
            run = sym_run(fn)
        except Unsupported as e:
            obs.append(simple_ob(f"{func}:{scen}:{shape}:RUN", func, "RUN", "symbolic execution completes", None, props,
                                 detail=f"unsupported: {e}"))
            continue
        pyvc.CUR = run.ctx          # spec text uses the same marker table
        try:
            spec = spec_body()
            pin = pinned() if pinned else None
        finally:
            pyvc.CUR = None
        tb = run.ctx.table
        rp = dict(replay or {}, times=str(shape))
        for i, p in enumerate(run.paths):
            base = f"{func}:{scen}:{shape}:p{i}"
            if p.kind == "exc":
                obs.append(simple_ob(base + ":EXC", func, "EXC", "no exception on inputs satisfying the precondition",
                                     False, props, detail=f"{type(p.value).__name__}: {p.value}", witness=type(p.value).__name__,
                                     replay=rp))
                continue
            text = p.value
            if not isinstance(text, str):
                obs.append(simple_ob(base + ":TYPE", func, "POST", "result is a string", False, props, detail=repr(text)))
                continue
            try:
                pr = rx.parse(text, tb)
            except rx.RxSyntax as e:
                obs.append(simple_ob(base + ":CLOSED", func, "CLOSED", "result parses as a regular expression", False, props,
                                     detail=f"{e}: {tb.show(text)}", witness="syntax", replay=rp))
                continue
            except Unsupported as e:
                obs.append(simple_ob(base + ":CLOSED", func, "CLOSED", "result parses as a regular expression", None, props,
                                     detail=f"unsupported: {e}"))
                continue
            shown = tb.show(text)
            issues = list(pr.issues)
            ss = sequence_safe(pr.ast)
            if ss:
                issues.append("CLOSED: " + ss)
            obs.append(simple_ob(base + ":CLOSED", func, "CLOSED",
                                 f"{shown} : children intact, alternations enclosed, sequence-safe", not issues, props,
                                 detail="; ".join(issues), witness="; ".join(issues), replay=rp))
            obs.append(simple_ob(base + ":CAPS", func, "CAPS",
                                 f"{shown} contains exactly {ncaps} capturing group(s): group numbers stay equal to the capture "
                                 f"registration order", pr.ncaps == ncaps, list(props) + ["C05"],
                                 detail=f"{pr.ncaps} capturing groups", witness=f"{pr.ncaps} capturing groups", replay=rp))
            top = pr.ast
            body = top
            # ---- repetition shape
            if shape == "sym":
                mt, nt = z3.Int("m"), z3.Int("n")
                if isinstance(top, rx.Rep) and (isinstance(top.lo, rx.SymBound) or isinstance(top.hi, rx.SymBound)):
                    lo = top.lo.term if isinstance(top.lo, rx.SymBound) else z3.IntVal(top.lo)
                    hi = top.hi.term if isinstance(top.hi, rx.SymBound) else (z3.IntVal(top.hi) if top.hi is not None else None)
                    claim = z3.And(lo == mt, hi == nt, lo >= 0, lo <= hi) if hi is not None else z3.BoolVal(False)
                    obs.append(z3_ob(base + ":TIMES", func, "POST",
                                     f"{shown} : quantifier bounds are exactly (min,max) and 0<=min<=max", p.pc, claim, props, rp))
                    grp_ok = isinstance(top.node, rx.Grp) and top.node.cap is None
                    obs.append(simple_ob(base + ":TIMES-GROUP", func, "CLOSED",
                                         "the quantifier is applied to one non-capturing group around one occurrence",
                                         grp_ok, props, detail=shown, witness="quantifier operand is not a group", replay=rp))
                    body = top.node.node if grp_ok else top.node
                else:
                    obs.append(z3_ob(base + ":TIMES", func, "POST",
                                     f"{shown} : no quantifier only when (min,max)=(1,1)", p.pc,
                                     z3.And(mt == 1, nt == 1), props, rp))
                lv = dict(levels)
                cb, sb = norm(body, lv), norm(rx.parse(spec, tb).ast, lv)
                obs.append(lang_ob(base + ":DEN", func, "DEN",
                                   f"one repetition of {shown} == spec {tb.show(spec)} on K_{level}",
                                   lambda: vc.den(cb, sb, level, lv), props, rp))
            else:
                if shape == "one":
                    full_spec = spec
                else:
                    a, b = shape
                    full_spec = f"(?:{spec}){{{a},{b}}}"
                lv = dict(levels)
                cb, sb = norm(top, lv), norm(rx.parse(full_spec, tb).ast, lv)
                obs.append(lang_ob(base + ":DEN", func, "DEN", f"{shown} == spec {tb.show(full_spec)} on K_{level}",
                                   lambda: vc.den(cb, sb, level, lv), props, rp))
                if pin is not None and shape == "one":
                    # the documented deviating behaviour of a known finding, as a second spec: any OTHER
                    # deviation of the same function is still a new violation
                    pb = norm(rx.parse(pin, tb).ast, lv)
                    obs.append(lang_ob(base + ":DEN-PINNED", func, "DEN", f"{shown} == pinned behaviour {tb.show(pin)}",
                                       lambda: vc.den(cb, pb, level, lv), props, rp))
                if shape != "one":
                    continue
            # ---- one-occurrence obligations
            obs.append(lang_ob(base + ":END", func, "END", f"every match of one occurrence ends on a {level} unit boundary",
                               lambda: vc.end(cb, level, lv, allow_empty=body_nullable), props, rp))
            obs.append(lang_ob(base + ":ENTRY", func, "ENTRY", "children / look-aheads are entered at a boundary of their level",
                               lambda: vc.entry(cb, level, lv), props, rp))
            if unit:
                obs.append(lang_ob(base + ":UNIT", func, "UNIT",
                                   f"one occurrence consumes exactly one {'instruction record' if level == G.INST else 'operand field'}",
                                   lambda: vc.unit(cb, level, lv), props, rp))
            if level == G.INST and want_start:
                obs.append(lang_ob(base + ":START-a", func, "START",
                                   "a match anywhere in a stream begins at a record start or inside an address",
                                   lambda: vc.start_a(cb, lv), props, rp))
                obs.append(lang_ob(base + ":START-b", func, "START",
                                   "a match from inside an address is also a match from the record start",
                                   lambda: vc.start_b(cb, lv), props, rp))
                obs.append(lang_ob(base + ":START-c", func, "START",
                                   "a match from the record start is also a match from every later address position",
                                   lambda: vc.start_c(cb, lv), props, rp))
    for o in obs:
        o.props = [q for q in o.props if _serves(q, o) and not (q == "C11" and level != G.INST)]
    return obs


ALIGNMENT_FAMILIES = {"END", "ENTRY", "START", "CLOSED", "UNIT"}


def _serves(prop: str, o: Ob) -> bool:
    """which property an obligation is evidence for"""
    if prop in ("C07", "C11"):
        return o.family in ALIGNMENT_FAMILIES
    if prop == "C02":
        return ":one:" not in o.name
    if prop == "C05":
        return o.family == "CAPS" or ":cap:" in o.name
    return True


# --------------------------------------------------------------------------- children shapes
def children_shapes(level: str, levels: Dict[str, str], max_k: int = 3):
    """concrete arities 1..max_k and the unbounded symbolic sequence (min_len 1)"""
    for k in range(1, max_k + 1):
        yield f"k{k}", (lambda k=k: [child_stub(f"c{j}", level, levels) for j in range(1, k + 1)])
    # children that compile to the SAME regex text (the same item written twice)
    yield "k2same", (lambda: [child_stub("c1", level, levels), child_stub("c1", level, levels)])
    yield "k3same", (lambda: [child_stub("c1", level, levels), child_stub("c2", level, levels), child_stub("c1", level, levels)])
    yield "seq", (lambda: SymSeq("children", child_stub("cg", level, levels), min_len=1))
    # a child that is itself a REAL operator node (not a stub): an operator treats each child as ONE unit whatever the child is --
    # a nested $and / $or / $and_any_order is never merged into its parent
    for inner, cls in (("and", "NodeAnd"), ("or", "NodeOr"), ("any", "NodeAndAnyOrder")):
        def mk(inner=inner, cls=cls):
            a, b, c = (child_stub(f"c{j}", level, levels) for j in (1, 2, 3))
            n = getattr(J.branch, cls)(node_data({"and": "$and", "or": "$or", "any": "$and_any_order"}[inner], J.gd.TimesType(1, 1), [a, b]))
            n._spec_inner = inner
            return [n, c]
        yield f"in-{inner}", mk


def spec_children(kids) -> List[str]:
    out = []
    for c in kids:
        inner = getattr(c, "_spec_inner", None)
        if inner is None:
            out.append(child_text(c.cid))
            continue
        t = [child_text(x.cid) for x in c.children]
        if inner == "and":
            out.append("(?:" + "".join(t) + ")")
        elif inner == "or":
            out.append("(?:" + "|".join(f"(?:{x})" for x in t) + ")")
        else:
            out.append("(?:" + "|".join("(?:" + "".join(p_) + ")" for p_ in itertools.permutations(t)) + ")")
    return out


# --------------------------------------------------------------------------- $or / $and / $and_any_order / $not
def _operator(cls_name: str, op: str, props: Sequence[str]):
    for level in (G.INST, G.OPER, G.DEREF):
        for cshape in ("k1", "k2", "k3", "k2same", "k3same", "seq", "in-and", "in-or", "in-any"):
            if cshape.startswith("in-") and level == G.DEREF:
                continue
            sid = f"{op}:{level}:{cshape}"
            func = f"jasm.jasm_regex.tree_generators.pattern_node_implementations.node_branch_root.{cls_name}.get_regex"

            def run(level=level, cshape=cshape, sid=sid, func=func):
                ensure()
                levels: Dict[str, str] = {}
                mk = dict(children_shapes(level, levels))[cshape]

                def build(times):
                    kids = mk()
                    node = getattr(J.branch, cls_name)(node_data(op, times, kids))
                    return node.get_regex

                def spec():
                    kids = mk()
                    if isinstance(kids, SymSeq):
                        g = child_text(kids.elem.cid)
                        if op == "$or":
                            return g                                     # some element
                        joined = __import__("vf.rt", fromlist=["x"]).join("", SymSeq("children", g, 1))
                        if op == "$and":
                            return joined                                # all elements, in order
                        perm = SymSeq("π(children)", g, 1, root="π(children)")
                        return __import__("vf.rt", fromlist=["x"]).join("", perm)   # all elements in some order π
                    texts = spec_children(kids)
                    if op == "$or":
                        return "(?:" + "|".join(f"(?:{t})" for t in texts) + ")"
                    if op == "$and":
                        return "".join(texts)
                    return "(?:" + "|".join("(?:" + "".join(p) + ")" for p in itertools.permutations(texts)) + ")"
                rp = {"kind": "operator", "op": op, "level": level, "children": cshape}
                return node_obligations(func, sid, props, level, build, spec, levels, replay=rp)
            scenario(sid, func, props,
                     inlined=["LogicalOperationBaseNode.get_regex", "LogicalOperationBaseNode.process_children",
                              f"{cls_name}._make_main_regex", "join_or_instructions", "TimesTypeBuilder.get_min_max_regex"],
                     doc=f"{op} over {cshape} children at {level} level")(run)


_operator("NodeOr", "$or", ["C03", "C02", "C07", "C11", "C05"])
_operator("NodeAnd", "$and", ["C03", "C02", "C07", "C11", "C01", "C05"])
_operator("NodeAndAnyOrder", "$and_any_order", ["C03", "C02", "C07", "C11", "C05"])


def _not():
    for level in (G.INST, G.OPER):
        sid = f"$not:{level}"
        func = "jasm.jasm_regex.tree_generators.pattern_node_implementations.node_branch_root.NodeNot.get_regex"

        def run(level=level, sid=sid, func=func):
            ensure()
            levels: Dict[str, str] = {}

            def build(times):
                cls = J.branch.NodeNot if level == G.INST else J.branch.NodeNotOperand
                node = cls(node_data("$not", times, [child_stub("c1", level, levels)]))
                return node.get_regex

            def spec():
                c = child_text("c1")
                if level == G.INST:
                    # exactly the one whole record at which X has no match starting there
                    return f"(?!{c}){HEXADDR}[^,|]+,(?:[^,|]*,)+\\|"
                # exactly one whole operand field at which x fails
                return f"(?!{c})[^,|]*,"
            rp = {"kind": "operator", "op": "$not", "level": level, "children": "k1"}
            return node_obligations(func, sid, ["C04", "C02", "C07", "C11", "C05"], level, build, spec, levels, replay=rp, unit=True)
        scenario(sid, func, ["C04", "C02", "C07", "C11", "C05"],
                 inlined=["LogicalOperationBaseNode.get_regex", "process_children", "NodeNot._make_main_regex",
                          "TimesTypeBuilder.get_min_max_regex"], doc=f"$not at {level} level")(run)


_not()


# --------------------------------------------------------------------------- operators over REAL leaf items
def _operators_over_leaves():
    """$not / $and / $or whose children are real mnemonic (INST) or operand (OPER) items, under every full-match flag setting: an
    operator never looks inside its child -- in particular a "fast path" for a bare name must say what the item itself says"""
    BR = "jasm.jasm_regex.tree_generators.pattern_node_implementations.node_branch_root."
    for opname, cls_i, cls_o in (("$not", "NodeNot", "NodeNotOperand"), ("$and", "NodeAnd", "NodeAnd"), ("$or", "NodeOr", "NodeOr")):
        for level in (G.INST, G.OPER):
            if opname == "$not" and level == G.OPER:
                continue      # the ENTRY family needs the level of a look-ahead body, which only child stubs carry
            for flag in (False, True):
                sid = f"{opname}:{level}:real-leaf:full={int(flag)}"
                cls_name = cls_i if level == G.INST else cls_o
                func = BR + cls_name + ".get_regex"

                def run(opname=opname, level=level, flag=flag, sid=sid, cls_name=cls_name, func=func):
                    ensure()
                    levels: Dict[str, str] = {}

                    def leaf(ident):
                        if level == G.INST:
                            return J.mo.PatternNodeMnemonic(node_data(Name(ident), J.gd.TimesType(1, 1), None))
                        return J.mo.PatternNodeOperand(node_data(Name(ident), J.gd.TimesType(1, 1), None))

                    def leaf_spec(ident):
                        t = str.__str__(Name(ident))
                        if level == G.INST:
                            return f"{HEXADDR}{_window(t, flag)},{REST_OF_RECORD}"
                        return f"{_window(t, flag)},"

                    def build(times):
                        set_flags(flag, flag)
                        kids = [leaf("w1")] if opname == "$not" else [leaf("w1"), leaf("w2")]
                        node = getattr(J.branch, cls_name)(node_data(opname, times, kids))
                        return node.get_regex

                    def spec():
                        if opname == "$not":
                            if level == G.INST:
                                return f"(?!{leaf_spec('w1')}){HEXADDR}[^,|]+,(?:[^,|]*,)+\\|"
                            return f"(?!{leaf_spec('w1')})[^,|]*,"
                        a, b = leaf_spec("w1"), leaf_spec("w2")
                        return a + b if opname == "$and" else f"(?:(?:{a})|(?:{b}))"
                    rp = {"kind": "operator", "op": opname, "level": level, "children": "k1" if opname == "$not" else "k2",
                          "fm": flag, "fo": flag, "real_leaves": True}
                    props = ["C04", "C01", "C03", "C02", "C07", "C11"] if opname == "$not" else ["C03", "C01", "C02", "C07", "C11"]
                    return node_obligations(func, sid, props, level, build, spec, levels, replay=rp, unit=(opname == "$not"))
                scenario(sid, func, ["C04", "C01", "C03", "C02", "C07", "C11"] if opname == "$not" else ["C03", "C01", "C02", "C07", "C11"],
                         inlined=["process_children", "PatternNodeMnemonic.get_regex / PatternNodeOperand.get_regex (real children)",
                                  "InstructionNodeHelper.get_pattern_node_name", "allow_matching_substring"],
                         doc=f"{opname} over real leaf items at {level} level, full-match flags = {flag}")(run)


# --------------------------------------------------------------------------- mnemonic / operand items
MN_FUNC = ("jasm.jasm_regex.tree_generators.pattern_node_implementations.mnemonic_and_operand."
           "mnemonic_and_operand.PatternNodeMnemonic.get_regex")
OP_FUNC = ("jasm.jasm_regex.tree_generators.pattern_node_implementations.mnemonic_and_operand."
           "mnemonic_and_operand.PatternNodeOperand.get_regex")


def _window(name_text: str, full: bool) -> str:
    """'occurs in' (substring, within one field) / 'equals'"""
    return name_text if full else f"{FIELD_ANY}{name_text}{FIELD_ANY}"


def _mnemonic():
    for fm in (False, True):
        for cshape in ("none", "empty", "k1", "k2", "k3", "seq", "times-only"):
            sid = f"mnemonic:fm={int(fm)}:{cshape}"

            def run(fm=fm, cshape=cshape, sid=sid):
                ensure()
                levels: Dict[str, str] = {}

                def kids():
                    if cshape == "none":
                        return None
                    if cshape == "empty":
                        return []
                    if cshape == "times-only":
                        # {name: {times: n}} : the only child is the PatternNodeTimes marker node (regex "")
                        return [J.branch.PatternNodeTimes(node_data("times", J.gd.TimesType(1, 1), None))]
                    return dict(children_shapes(G.OPER, levels))[cshape]()

                def build(times):
                    set_flags(fm, False)
                    node = J.mo.PatternNodeMnemonic(node_data(Name("w"), times, kids()))
                    return node.get_regex

                def spec():
                    w = Name("w")
                    k = kids()
                    if not k or cshape == "times-only":
                        ops = ""
                    elif isinstance(k, SymSeq):
                        ops = __import__("vf.rt", fromlist=["x"]).join("", SymSeq("children", child_text(k.elem.cid), 1))
                    else:
                        ops = "".join(spec_children(k))
                    # address, "::", mnemonic field containing / equal to w, the operand items on the first
                    # operand fields in order, any further fields of the same record, "|"
                    return f"{HEXADDR}{_window(str.__str__(w), fm)},{ops}{REST_OF_RECORD}"
                rp = {"kind": "mnemonic", "fm": fm, "children": cshape, "level": G.INST}
                return node_obligations(MN_FUNC, sid, ["C01", "C02", "C07", "C11", "C05"], G.INST, build, spec, levels, replay=rp,
                                        unit=True)
            scenario(sid, MN_FUNC, ["C01", "C02", "C07", "C11", "C05"],
                     inlined=["PatternNodeMnemonic.get_operand_regex", "get_min_max_regex", "_form_regex_with_time",
                              "_form_regex_without_time", "InstructionNodeHelper.get_pattern_node_name",
                              "InstructionNodeHelper.allow_matching_substring", "JASMConfig.get_instance/get_info/load_config"],
                     doc="mnemonic item with an opaque literal name")(run)


_mnemonic()


# concrete names of the [0-9a-f]+h spelling: what the rewrite does to particular digits (leading zeros, all zeros, upper case,
# register look-alikes) is not visible on an opaque stem
HEX_CONCRETE = ["10h", "0h", "00h", "08h", "0ah", "a0h", "ffh", "A3h", "ah", "dh"]
# concrete literal names whose SPELLING could be treated specially (a leading '%', a register that is the tail of a longer one,
# digits only): they denote themselves, like every other name
LIT_CONCRETE = ["%di", "%rax", "%ax", "rax", "%st", "7", "FF", "gh", "push", "0xh", "Gh"]


def _operand():
    for fo in (False, True):
        for cat in ["plain", "endh", "hexh", "int"] + [f"hexc:{n}" for n in HEX_CONCRETE] + [f"lit:{n}" for n in LIT_CONCRETE]:
            sid = f"operand:fo={int(fo)}:{cat}"

            def run(fo=fo, cat=cat, sid=sid):
                ensure()
                levels: Dict[str, str] = {}

                def mkname():
                    if cat.startswith("hexc:"):
                        return cat[5:]
                    if cat.startswith("lit:"):
                        return cat[4:]
                    if cat == "plain":
                        return Name("v")
                    if cat == "endh":
                        return Name("v", "endh", stem=Name("vstem", "stem"))
                    if cat == "hexh":
                        return Name("v", "hexh", stem=pyvc.HexStem("vstem", "stem"))
                    return pyvc.sym_int("v")

                def build(times):
                    set_flags(False, fo)
                    node = J.mo.PatternNodeOperand(node_data(mkname(), times, None))
                    return node.get_regex

                def spec():
                    n = mkname()
                    if cat == "int":
                        txt = str(n)
                    else:
                        txt = str.__str__(n)
                    return f"{_window(txt, fo)},"
                def pinned():
                    n = mkname()
                    if cat.startswith("hexc:"):
                        return f"{_window('0x' + n[:-1], fo)},"       # the digits exactly as written
                    return f"{_window('0x' + str.__str__(n.stem), fo)},"
                rp = {"kind": "operand", "fo": fo, "cat": cat, "level": G.OPER}
                return node_obligations(OP_FUNC, sid, ["C01", "C07", "C11", "C05"], G.OPER, build, spec, levels, replay=rp,
                                        shapes=["one"], pinned=pinned if cat.startswith("hex") else None, unit=True)
            scenario(sid, OP_FUNC, ["C01", "C07", "C11", "C05"],
                     inlined=["PatternNodeOperand._is_hex_operand", "_process_hex_operand",
                              "InstructionNodeHelper.get_pattern_node_name", "allow_matching_substring"],
                     doc="operand item with an opaque literal name of each category")(run)


_operand()


_operators_over_leaves()
