"""C17: failures are loud.  (a) the exceptional postconditions of the individual functions are in the
other contract files (obligations tagged C17); (b) no exception handler swallows a fault (static);
(c) every fault of the statement, injected alone into a valid (rule, input) pair whose verdict is
'found', run through the real public entry point: the outcome must be an exception."""
from __future__ import annotations

import ast
import glob
import json
import os
import subprocess
import sys
from typing import Any, Dict, List

from vf.core import Ob, scenario, simple_ob
from vf import instrument
from vf.instrument import repo_root

ROOT = os.path.dirname(os.path.dirname(os.path.abspath(__file__)))
P = ["C17"]

# handlers that are value probes (is this text an integer?), not fault handlers
PROBES = {("asm_manual_parser_w_regex.py", "operand_is_int"), ("asm_manual_parser_w_regex.py", "operand_is_hex"),
          ("mnemonic_and_operand.py", "_is_hex_operand")}


def _reraises(body: List[ast.stmt]) -> bool:
    """every path through the handler body ends in `raise` (no path returns, continues or falls through)"""
    for st in body:
        if isinstance(st, ast.Raise):
            return True
        if isinstance(st, (ast.Return, ast.Continue, ast.Break)):
            return False
        if isinstance(st, ast.If):
            if _reraises(st.body) and st.orelse and _reraises(st.orelse):
                return True
            # a branch that does not raise must at least not leave the handler normally
            for n in ast.walk(st):
                if isinstance(n, (ast.Return, ast.Continue, ast.Break)):
                    return False
            continue
        for n in ast.walk(st):
            if isinstance(n, (ast.Return, ast.Continue, ast.Break)):
                return False
    return False


@scenario("faults:handlers", "src/jasm (all except handlers)", P, doc="every exception handler re-raises (except the integer-literal probes)")
def handlers():
    obs: List[Ob] = []
    root = os.path.join(repo_root(), "src", "jasm")
    n = 0
    for f in sorted(glob.glob(os.path.join(root, "**", "*.py"), recursive=True)):
        tree = instrument.parse_file(f)
        for fn in ast.walk(tree):
            if not isinstance(fn, (ast.FunctionDef, ast.AsyncFunctionDef)):
                continue
            for h in ast.walk(fn):
                if isinstance(h, ast.ExceptHandler):
                    n += 1
                    key = (os.path.basename(f), fn.name)
                    typ = ast.unparse(h.type) if h.type else "BaseException"
                    if key in PROBES and typ in ("ValueError", "(ValueError, TypeError)"):
                        ok = True
                        what = "value probe (returns None/False for text that is not a number)"
                    elif typ in ("StopIteration", "StopAsyncIteration"):
                        # the iteration protocol's end-of-data signal (next() on an exhausted iterator): none of the faults of the
                        # statement is reported through it
                        ok = True
                        what = "end-of-iteration signal, not a fault"
                    else:
                        ok = _reraises(h.body)
                        what = "re-raises on every path"
                    obs.append(simple_ob(f"handler:{key[0]}:{fn.name}:{typ}:L{h.lineno}", f"{key[0]}:{fn.name}", "EXC",
                                         f"`except {typ}` in {fn.name}: {what}", True if ok else None, P,
                                         detail=f"handler at {os.path.relpath(f, repo_root())}:{h.lineno} does not re-raise: a fault reaching it may be reported as 'not found'"))
            # bare try/finally without handlers are fine
    obs.append(simple_ob("handler:count", "src/jasm", "EXC", "the scan saw the exception handlers of the tree (vacuity guard)", n >= 5, P, detail=str(n)))
    return obs


VALID_RULE = "pattern:\n  - push:\n      - rbp\n  - mov\n"
LISTING = ("\n/bin/x:     file format elf64-x86-64\n\n\nDisassembly of section .text:\n\n0000000000001000 <f>:\n"
           "    1000:\t55                   \tpush   %rbp\n    1001:\t48 89 e5             \tmov    %rsp,%rbp\n    1004:\tc3                   \tret\n")
ASM_SRC = ".text\nf:\n push %rbp\n mov %rsp,%rbp\n ret\n"


def fault_jobs() -> List[Dict[str, Any]]:
    jobs: List[Dict[str, Any]] = []

    def add(fid, rule=VALID_RULE, expect="raise", **kw):
        jobs.append(dict({"id": fid, "rule_text": rule, "listing": LISTING, "expect": expect}, **kw))
    add("control:valid-assembly", expect="True")
    add("control:valid-binary", expect="True", binary=True, listing=ASM_SRC)
    add("input-missing:assembly", input_missing=True)
    add("input-missing:binary", input_missing=True, binary=True)
    add("rule-missing", rule_missing=True)
    add("binary-garbage", binary=True, garbage=True)
    add("objdump-absent", binary=True, listing=ASM_SRC, no_objdump=True)
    add("objdump-error-after-banner", binary=True, listing=ASM_SRC, rule="config:\n  sections:\n    - .no_such_section\n" + VALID_RULE)
    add("yaml-malformed", rule="pattern:\n  - push: [rbp\n")
    add("pattern-missing", rule="config:\n  style: att\n")
    add("pattern-scalar", rule="pattern: 5\n")
    add("pattern-empty-list", rule="pattern: []\n")
    add("config-not-mapping", rule="config: 5\n" + VALID_RULE)
    # a `config` entry of the wrong type that happens to be falsy: not "no configuration"
    CFG_RULE = "pattern:\n  - push:\n      - rbp\n  - mov\n"
    add("config-empty-list", rule="config: []\n" + CFG_RULE)
    add("config-empty-string", rule="config: ''\n" + CFG_RULE)
    add("config-zero", rule="config: 0\n" + CFG_RULE)
    add("config-false", rule="config: false\n" + CFG_RULE)
    add("config-flag-wrong-type", rule="config:\n  mnemonics-full-match: 'yes'\n" + VALID_RULE)
    add("config-sections-wrong-type", rule="config:\n  sections: .text\n" + VALID_RULE)
    add("config-style-invalid", rule="config:\n  style: Intel\n" + VALID_RULE)
    add("config-style-wrong-type", rule="config:\n  style: 0\n" + VALID_RULE)
    add("config-range-unquoted-hex", rule="config:\n  valid_addr_range:\n    min: 0x401000\n    max: 0x401fff\n" + VALID_RULE)
    add("config-range-missing-bound", rule="config:\n  valid_addr_range:\n    min: '0x401000'\n" + VALID_RULE)
    add("config-range-not-mapping", rule="config:\n  valid_addr_range: '0x401000-0x401fff'\n" + VALID_RULE)
    add("macros-wrong-type", rule="macros: 5\n" + VALID_RULE)
    add("empty-group", rule="pattern:\n  - $or: []\n")
    add("not-two-args", rule="pattern:\n  - $not:\n      - push\n      - mov\n")
    add("not-zero-args", rule="pattern:\n  - $not: []\n")
    add("deref-without-main-reg", rule="pattern:\n  - mov:\n      - $deref:\n          constant_offset: 8\n")
    add("times-negative", rule="pattern:\n  - push:\n      times: -1\n")
    add("times-negative-min", rule="pattern:\n  - push:\n      - rbp\n    times:\n      min: -2\n      max: 1\n")
    add("times-inverted", rule="pattern:\n  - push:\n      times:\n        min: 3\n        max: 1\n")
    add("macro-undefined", rule="macros:\n  - name: '@m'\n    pattern: push\npattern:\n  - '@m'\n  - '@undefined'\n")
    # an undefined @name when NO macro definition is supplied at all (the expander is not run then)
    add("macro-undefined-no-definitions", rule="pattern:\n  - push\n  - '@undefined'\n")
    add("macro-name-without-at", rule="macros:\n  - name: 'm'\n    pattern: push\npattern:\n  - push\n")
    add("macro-file-missing", macros_text=[None])
    # wrongly-typed entries INSIDE the pattern: an item whose body is a scalar, an operand written as a mapping with a body, an
    # empty $deref field, a macro whose body is a number -- the rule as written cannot be compiled, so nothing may be "not found"
    add("item-body-scalar", rule="pattern:\n  - push: rbp\n  - mov\n")
    add("item-body-number", rule="pattern:\n  - push: 5\n  - mov\n")
    add("operand-with-body", rule="pattern:\n  - push:\n      - rbp: [zzz]\n  - mov\n")
    add("operand-with-times-body", rule="pattern:\n  - push:\n      - rbp:\n          times: 3\n  - mov\n")
    add("deref-field-empty-list", rule="pattern:\n  - mov:\n      - $deref:\n          main_reg: []\n")
    add("macro-body-number", rule="macros:\n  - name: '@off'\n    pattern: 8\npattern:\n  - push\n  - mov:\n      - $deref:\n          main_reg: rsp\n          constant_offset: '@off'\n")
    add("macro-body-mapping-in-text", rule="macros:\n  - name: '@r'\n    pattern:\n      - $or: [rbp, rbx]\npattern:\n  - push:\n      - '%@r'\n  - mov\n")
    add("item-is-number", rule="pattern:\n  - 1.5\n  - mov\n")
    add("item-is-null", rule="pattern:\n  - ~\n  - mov\n")
    return jobs


@scenario("faults:injection", "jasm.match.MasterOfPuppets.perform_matching", P,
          doc="each fault of the statement injected alone into a valid pair, through the public entry point (real code, subprocess)")
def injection():
    jobs = fault_jobs()
    env = dict(os.environ)
    env["PYTHONPATH"] = os.path.join(repo_root(), "src")
    env["PYTHONDONTWRITEBYTECODE"] = "1"
    from vf import alpha
    env = alpha.env_for(os.path.join(repo_root(), "src"), env)
    py = "/venv/bin/python" if os.path.exists("/venv/bin/python") else sys.executable
    p = subprocess.run([py, os.path.join(ROOT, "vf", "fault_runner.py")], input=json.dumps(jobs), text=True, capture_output=True,
                       env=env, cwd="/tmp", timeout=600)
    obs: List[Ob] = []
    if p.returncode != 0:
        return [simple_ob("fault-injection:RUN", "MasterOfPuppets", "EXC", "the fault runner completes", None, P, detail=p.stderr[-500:])]
    res = {r["id"]: r["outcome"] for r in json.loads(p.stdout)}
    harness = [v for v in res.values() if v.startswith("harness:")]
    if harness:
        return [simple_ob("fault-injection:RUN", "MasterOfPuppets", "EXC", "the fault harness's call of the public entry point fits this tree", None, P,
                          detail=harness[0])]
    for j in jobs:
        oc = res.get(j["id"], "missing")
        if j["expect"] == "raise":
            ok = oc.startswith("raised:")
            st = f"fault `{j['id']}`: the operation terminates with an error (never 'not found')"
        else:
            ok = oc == "returned:True"
            st = f"{j['id']}: the fault-free pair is found (the faults are injected into a pair whose verdict is 'found')"
        o = simple_ob(f"fault-injection:{j['id']}", "jasm.match.MasterOfPuppets.perform_matching", "EXC", st, ok, P, detail=oc, witness=oc,
                      replay={"kind": "fault", "job": j})
        o.bounded = "fault injection: one representative (rule, input) pair per listed fault, real code in a subprocess"
        obs.append(o)
    return obs
