"""C13 / C19: macro expansion.

Deductive part: the single-step functions of MacroExpander with the recursion replaced by its
contract (structural induction over the YAML tree), list children as symbolic sequences, strings
as structured strings; resolve_all_macros = ordered fold + name validation + final scan;
_collect_macro_names (spec function Names@); Yaml2Regex._get_pattern / load_macros_from_args
(extra files prepended in file order).
Bounded part (never counted as proved): MacroArgsResolver (recursive generators over an unbounded tree whose
yield is applied as in-place mutations by path) against simultaneous substitution on enumerated small bodies, and whole expansions
against the reference inliner (oracle/inline.py) -- see vf/sweeps.py.
"""
from __future__ import annotations

import copy
import itertools
from typing import Any, Dict, List

from vf import pyvc, sstr
from vf.core import Ob, scenario, simple_ob, sym_run, worst_per_name
from vf.jasmrt import J, ensure
from vf.pyvc import Name, SymSeq, Unsupported, ctx
from vf.rt import Splice
from vf.sstr import SymStr, lit, var

ME = "jasm.jasm_regex.macro_expander.macro_expander.MacroExpander"
P13, P19 = ["C13"], ["C19"]
P13_19_17 = ["C13", "C19", "C17"]


class Opaque:
    """an arbitrary YAML subtree (dict or list) left symbolic"""

    def __init__(self, ident):
        self.ident = ident

    def __repr__(self):
        return f"‹tree:{self.ident}›"

    def render(self, c):
        return repr(self)


class Applied:
    """subst1(macro, tree): result of the recursive call (contract)"""

    def __init__(self, macro_name, tree):
        self.macro_name, self.tree = macro_name, tree

    def __repr__(self):
        return f"subst1({self.macro_name},{self.tree!r})"

    def render(self, c):
        return repr(self)

    def __eq__(self, o):
        return isinstance(o, Applied) and (o.macro_name, repr(o.tree)) == (self.macro_name, repr(self.tree))

    def __hash__(self):
        return hash(repr(self))


class recursion_stub:
    """the entry call runs the real _apply_macro_recursively; nested calls are answered by the contract:
    they return subst1(macro, subtree) and record their ghost effect on rule_macros"""

    def __init__(self, log):
        self.log = log
        self.depth = 0

    def __enter__(self):
        cls = J.mexp.MacroExpander
        self.orig = cls._apply_macro_recursively
        me = self

        def wrapped(self_e, macro, tree, rule_macros):
            if me.depth == 0:
                me.depth += 1
                try:
                    return me.orig(self_e, macro=macro, tree=tree, rule_macros=rule_macros)
                finally:
                    me.depth -= 1
            me.log.append(("rec", macro.get("name"), tree))
            rule_macros.add(("effect", macro.get("name"), repr(tree)))
            return Applied(macro.get("name"), tree)
        cls._apply_macro_recursively = wrapped
        return self

    def __exit__(self, *a):
        J.mexp.MacroExpander._apply_macro_recursively = self.orig


def _macro(body, args=None, name="@m"):
    m = {"name": name, "pattern": body}
    if args:
        m["args"] = args
    return m


@scenario("macros:str-tree", ME + "._process_str_tree", ["C13", "C19", "C17"],
          inlined=["_apply_macro_to_tree", "_apply_macro_to_tree_substring", "_resolve_local_macro", "_macro_has_args", "is_macro_name",
                   "_apply_macro_recursively (string case)"],
          doc="string positions: whole-string use, use inside a name, no use; effect on rule_macros")
def str_tree():
    ensure()
    obs: List[Ob] = []
    func = ME + "._apply_macro_recursively"
    free = "[a-z0-9%$.+*-]*"
    cases = {
        "whole": (lambda: lit("@m"), "body", set()),
        "inside": (lambda: var("pre", "[a-z0-9%$.]+", avoid="@m") + "@m" + var("post", free, avoid="@m"), "‹pre›BODY‹post›", set()),
        "inside-at-start": (lambda: lit("@m") + var("post", "[a-z0-9%$.]+", avoid="@m"), "BODY‹post›", set()),
        "other-macro": (lambda: lit("@") + var("nm", "[a-ln-z][a-z0-9_]*"), "same", {"self"}),
        "plain": (lambda: var("w", "[a-z0-9%$.][a-z0-9%$.+*-]*"), "same", set()),
    }
    for cid, (mk, want, want_rm) in cases.items():
        for body_kind in ("str", "esc", "list"):
            must_raise = body_kind == "list" and cid.startswith("inside")
            # a list-pattern macro cannot be used inside a name: the expander raises -- the reference is never kept as text
            BODY = "BODY" if body_kind != "esc" else "B\\dY\\b\\1"      # a body holding regex escapes is copied literally
            frame: List[bool] = []

            def fn():
                t = mk()
                rm: set = set()
                body: Any = BODY if body_kind != "list" else [Opaque("body0")]
                mdef = _macro(body)
                keys0, body0 = list(mdef.keys()), mdef["pattern"]
                r = J.mexp.MacroExpander()._apply_macro_recursively(macro=mdef, tree=t, rule_macros=rm)
                # the definition is not altered by being used (C13): same keys, same body object
                frame.append(list(mdef.keys()) == keys0 and mdef.get("pattern") is body0 and mdef.get("name") == "@m")
                return [r, rm, t]
            try:
                runr = sym_run(fn)
            except Unsupported as e:
                obs.append(simple_ob(f"_apply_macro_recursively:str:{cid}:{body_kind}:RUN", func, "RUN", "symbolic execution completes", None,
                                     ["C13", "C19"], detail=f"unsupported: {e}"))
                continue
            c = runr.ctx
            if not must_raise:
                obs.append(simple_ob(f"_apply_macro_recursively:str:{cid}:{body_kind}:FRAME-definition", func, "FRAME",
                                     f"[{cid}] the macro definition is not altered by being used (same keys, same body): a second use sees it as written",
                                     bool(frame) and all(frame), ["C13", "C14"], detail=repr(frame), witness=cid))
            for i, p in enumerate(runr.paths):
                base = f"_apply_macro_recursively:str:{cid}:{body_kind}:p{i}"
                if must_raise:
                    obs.append(simple_ob(base + ":EXC-loud", func, "EXC",
                                         f"[{cid}] a macro whose pattern is a subtree, referenced inside a text, cannot be expanded there: "
                                         "the operation fails (the reference never survives as literal text)", p.kind == "exc", ["C19", "C17"],
                                         detail=repr(p.value)[:160], witness=cid))
                    continue
                if p.kind != "ret":
                    obs.append(simple_ob(base + ":EXC", func, "EXC", "no exception", False, P13, detail=repr(p.value), witness=cid))
                    continue
                r, rm, t = p.value
                if want == "same":
                    ok = isinstance(r, str) and str.__str__(r) == str.__str__(t)
                    st = "a string that does not mention the macro is returned unchanged"
                elif want == "body":
                    ok = (r == BODY) if body_kind != "list" else (isinstance(r, Opaque) and r.ident == "body0")
                    st = "a string equal to the macro name is replaced by the body (list pattern: its single element)"
                else:
                    ok = isinstance(r, str) and c.table.show(str.__str__(r)) == want.replace("BODY", BODY)
                    st = "a string macro used inside a name is replaced textually (the body is copied literally), the rest of the name is kept"
                obs.append(simple_ob(base + ":POST", func, "POST", f"[{cid}] {st}", ok, P13, detail=repr(r) if not isinstance(r, str) else c.table.show(str.__str__(r)),
                                     witness=cid))
                shown_rm = set("self" if isinstance(x, str) and str.__str__(x) == str.__str__(t) else repr(x) for x in rm)
                obs.append(simple_ob(base + ":GHOST", func, "POST",
                                     f"[{cid}] rule_macros afterwards: {'contains the unresolved @name' if want_rm else 'unchanged / the resolved name removed'}",
                                     shown_rm == want_rm, P19, detail=repr(shown_rm), witness=repr(shown_rm)))
    return obs


@scenario("macros:dict-tree", ME + "._process_dict_tree", ["C13", "C19"],
          inlined=["_apply_macro_recursively (dict case)", "_apply_macro_to_tree", "_resolve_local_macro"],
          doc="dict positions: macro as key (times body / argument call), otherwise recursion into every dict, list and string value")
def dict_tree():
    ensure()
    obs: List[Ob] = []
    func = ME + "._process_dict_tree"
    # --- recursion into children (macro name not a key)
    for cid, mk in (
        ("list-seq", lambda: {Name("k"): SymSeq("items", Opaque("item_k"), 0)}),
        ("list-two", lambda: {Name("k"): [Opaque("i1"), Opaque("i2")]}),
        ("dict-value", lambda: {Name("k"): {"inner": Opaque("v")}}),
        ("two-keys", lambda: {Name("k"): [Opaque("i1")], "times": 3}),
        ("str-value-plain", lambda: {"main_reg": var("rv", "[a-z0-9%$.]+", avoid="@m")}),
        # a string macro in a dict VALUE: as the whole value, and inside a longer name (prefix / suffix / both)
        ("str-value-whole", lambda: {"constant_offset": "@m"}),
        ("str-value-inside", lambda: {"constant_offset": "-0x@m"}),
        ("str-value-inside2", lambda: {"main_reg": "%r@mx"}),
        ("str-value-inside-sym", lambda: {"constant_offset": var("pre", "[a-z0-9%$.-]+", avoid="@m") + "@m"}),
    ):
        log: List[Any] = []

        def fn():
            log.clear()
            t = mk()
            keys = list(t.keys())
            rm: set = set()
            with recursion_stub(log):
                r = J.mexp.MacroExpander()._apply_macro_recursively(macro=_macro("BODY"), tree=t, rule_macros=rm)
            return [r, t, keys, list(log)]
        try:
            runr = sym_run(fn)
        except Unsupported as e:
            obs.append(simple_ob(f"_process_dict_tree:{cid}:RUN", func, "RUN", "symbolic execution completes", None, P13, detail=f"unsupported: {e}"))
            continue
        for i, p in enumerate(runr.paths):
            base = f"_process_dict_tree:{cid}:p{i}"
            if p.kind != "ret":
                obs.append(simple_ob(base + ":EXC", func, "EXC", "no exception", False, P13, detail=repr(p.value), witness=cid))
                continue
            r, t, keys, lg = p.value
            ok = isinstance(r, dict) and list(r.keys()) == keys
            if ok:
                k0 = keys[0]
                v = r[k0]
                if cid == "list-seq":
                    ok = isinstance(v, SymSeq) and v.root == "items" and isinstance(v.elem, Applied) and v.elem.tree.ident == "item_k"
                elif cid in ("list-two", "two-keys"):
                    ok = [(type(x).__name__, getattr(getattr(x, "tree", None), "ident", None)) for x in v] == \
                        [("Applied", "i1")] + ([("Applied", "i2")] if cid == "list-two" else [])
                    if cid == "two-keys":
                        ok = ok and r["times"] == 3
                elif cid == "dict-value":
                    ok = isinstance(v, Applied) and isinstance(v.tree, dict) and list(v.tree.keys()) == ["inner"]
                elif cid == "str-value-plain":
                    ok = isinstance(v, str) and runr.ctx.table.show(str.__str__(v)) == "‹rv›"
                else:
                    wantv = {"str-value-whole": "BODY", "str-value-inside": "-0xBODY", "str-value-inside2": "%rBODYx",
                             "str-value-inside-sym": "‹pre›BODY"}[cid]
                    ok = isinstance(v, str) and runr.ctx.table.show(str.__str__(v)) == wantv
            obs.append(simple_ob(base + ":POST", func, "POST",
                                 f"[{cid}] keys and their order unchanged; every dict value and every list element is replaced by subst1 of itself "
                                 "(in order), a string value by its string substitution, other values untouched", ok, P13, detail=repr(r)[:200], witness=cid))
    # --- macro name as key
    for cid, mk, body, want in (
        ("key-times", lambda: {"@m": {"times": 2}}, "BODY", {"BODY": {"times": 2}}),
        ("key-call-list", lambda: {"@m": {"reg": "rax"}}, [Opaque("b0")], "b0"),
    ):
        def fn():
            rm = {"@m"}
            r = J.mexp.MacroExpander()._apply_macro_recursively(macro=_macro(body), tree=mk(), rule_macros=rm)
            return [r, rm]
        runr = sym_run(fn)
        for i, p in enumerate(runr.paths):
            base = f"_process_dict_tree:{cid}:p{i}"
            if p.kind != "ret":
                obs.append(simple_ob(base + ":EXC", func, "EXC", "no exception", False, P13, detail=repr(p.value), witness=cid))
                continue
            r, rm = p.value
            ok = (r == want) if isinstance(want, dict) else (isinstance(r, Opaque) and r.ident == want)
            obs.append(simple_ob(base + ":POST", func, "POST",
                                 f"[{cid}] a dict whose key is the macro name is replaced by "
                                 f"{'{body: the times clause}' if isinstance(want, dict) else 'the single element of the list pattern'}",
                                 ok, P13, detail=repr(r), witness=cid))
            obs.append(simple_ob(base + ":GHOST", func, "POST", f"[{cid}] the resolved name is removed from rule_macros", rm == set(), P19, detail=repr(rm), witness=cid))
    # --- parameterised macro: resolved on a deep copy, by the resolver (contract: simultaneous substitution; bounded stand-in)
    calls: List[Any] = []

    def fn2():
        calls.clear()
        orig = J.mexp.MacroArgsResolver

        class R:
            def resolve(self, macro, tree):
                calls.append((macro, tree))
                return {"name": macro["name"], "pattern": [Opaque("resolved-body")], "args": macro["args"]}
        J.mexp.MacroArgsResolver = R
        try:
            m = _macro([{"xor": ["reg", "reg"]}], args=["reg"])
            snap = copy.deepcopy(m)
            t = {"@m": {"reg": "rax"}}
            r = J.mexp.MacroExpander()._apply_macro_recursively(macro=m, tree=t, rule_macros=set())
            return [r, m == snap, calls[0][0] is not m and calls[0][0] == snap if calls else None, calls[0][1] is t if calls else None]
        finally:
            J.mexp.MacroArgsResolver = orig
    runr = sym_run(fn2)
    for i, p in enumerate(runr.paths):
        ok = p.kind == "ret" and isinstance(p.value[0], Opaque) and p.value[1] is True and p.value[2] is True and p.value[3] is True
        obs.append(simple_ob(f"_resolve_local_macro:args:p{i}:POST", ME + "._resolve_local_macro", "POST",
                             "a macro with args is resolved on a deep copy (the definition is not altered) with the call node as argument source; "
                             "the use is replaced by the resolved body", ok, P13, detail=repr(p.value), witness="args"))
    return obs


@scenario("macros:resolve_all", ME + ".resolve_all_macros", ["C13", "C19", "C17", "C14"], inlined=["_resolve_macro"],
          doc="ordered fold over the macro list on a deep copy; name validation; leftovers reported")
def resolve_all():
    ensure()
    obs: List[Ob] = []
    func = ME + ".resolve_all_macros"
    for n in (0, 1, 2, 3):
        for leftover in ("none", "ghost", "scan", "scan-defined"):
            log: List[Any] = []

            def fn():
                log.clear()
                cls = J.mexp.MacroExpander
                o_apply, o_collect = cls._apply_macro_recursively, cls._collect_macro_names

                def apply(self_e, macro, tree, rule_macros):
                    log.append(("apply", macro["name"], tree))
                    if leftover == "ghost" and macro["name"] == "@m1":
                        rule_macros.add("@undefined")
                    return Applied(macro["name"], tree)

                def collect(self_e, tree):
                    log.append(("collect", tree))
                    if leftover == "scan-defined":
                        return {"@m1"}        # a name that HAS a definition but is still in the expanded tree
                    return {"@leftover"} if leftover == "scan" else set()
                cls._apply_macro_recursively, cls._collect_macro_names = apply, collect
                try:
                    macros = [_macro("b%d" % k, name="@m%d" % k) for k in range(1, n + 1)]
                    tree = {"$and": [Opaque("p")]}
                    r = cls().resolve_all_macros(macros=macros, pattern_tree=tree)
                    return [r, tree, list(log)]
                finally:
                    cls._apply_macro_recursively, cls._collect_macro_names = o_apply, o_collect
            runr = sym_run(fn)
            for i, p in enumerate(runr.paths):
                base = f"resolve_all_macros:n={n}:{leftover}:p{i}"
                must_raise = (leftover == "ghost" and n >= 1) or leftover in ("scan", "scan-defined")
                if must_raise:
                    ok = p.kind == "exc" and isinstance(p.value, ValueError)
                    obs.append(simple_ob(base + ":EXC", func, "EXC",
                                         "a macro name left unresolved (seen while expanding, or still present in the expanded tree) raises ValueError",
                                         ok, ["C19", "C17"], detail=repr(p.value)[:120], witness=leftover))
                    continue
                if p.kind != "ret":
                    obs.append(simple_ob(base + ":EXC", func, "EXC", "no exception", False, P13, detail=repr(p.value), witness="exc"))
                    continue
                r, tree, lg = p.value
                applies = [x for x in lg if x[0] == "apply"]
                names = [x[1] for x in applies]
                chain_ok = names == ["@m%d" % k for k in range(1, n + 1)]
                cur: Any = None
                for k, x in enumerate(applies):
                    if k == 0:
                        chain_ok = chain_ok and isinstance(x[2], dict) and x[2] is not tree and list(x[2].keys()) == ["$and"]
                    else:
                        chain_ok = chain_ok and x[2] is cur
                    cur_prev = x[2]
                    cur = None
                    # the stub returned Applied(name, tree): the next call must receive that very object
                    cur = [y for y in [r] if False] or None
                # simpler: rebuild the expected nesting
                exp = "deepcopy"
                for k in range(1, n + 1):
                    exp = f"subst1(@m{k},{exp})"
                got = repr(r)
                got_norm = got.replace(repr({"$and": [Opaque("p")]}), "deepcopy")
                obs.append(simple_ob(base + ":POST-fold", func, "POST",
                                     "result = subst1(m_n, ... subst1(m_1, deepcopy(pattern)) ...): every macro applied exactly once, in list order, to the result of the previous one",
                                     names == ["@m%d" % k for k in range(1, n + 1)] and got_norm == exp, P13, detail=got_norm, witness=got_norm))
                first_tree = applies[0][2] if applies else r
                obs.append(simple_ob(base + ":FRAME-pattern", func, "FRAME",
                                     "the pattern tree handed in is neither modified nor the object the macros are applied to: expansion works "
                                     "on a deep copy (a second compilation from the same loaded document sees the pattern as written)",
                                     first_tree is not tree and list(tree.keys()) == ["$and"] and len(tree["$and"]) == 1
                                     and isinstance(tree["$and"][0], Opaque) and (first_tree is not r or not applies),
                                     ["C13", "C14", "C19"], detail=f"same object: {first_tree is tree}", witness=repr(first_tree is tree)))
                collects = [x for x in lg if x[0] == "collect"]
                obs.append(simple_ob(base + ":POST-final-scan", func, "POST",
                                     "the returned tree is the one that was scanned for remaining macro names (Names@(result) = {} on normal return)",
                                     len(collects) == 1 and collects[0][1] is r, P19 + ["C17"], detail=repr(collects), witness=str(len(collects))))
    # names must start with '@'
    runr = sym_run(lambda: J.mexp.MacroExpander().resolve_all_macros(macros=[_macro("b", name="@ok"), _macro("b", name=Name("bad"))],
                                                                     pattern_tree={"$and": ["x"]}))
    for i, p in enumerate(runr.paths):
        obs.append(simple_ob(f"resolve_all_macros:badname:p{i}:EXC", func, "EXC", "a macro whose name does not start with '@' is rejected (ValueError)",
                             p.kind == "exc" and isinstance(p.value, ValueError), ["C19", "C17"], detail=repr(p.value)[:100], witness="badname"))
    return obs


class _CollectLoop:
    covers = "*"             # the accumulator set of the entry call (whatever the local is called) is the state this invariant speaks about
    def __init__(self, holder, obs):
        self.holder, self.obs = holder, obs

    def establish(self, seq, at):
        f = self.holder["found"]
        pre = set(x for x in f if not (isinstance(x, tuple) and x and x[0] in ("splice", "names")))
        f.clear()
        f.update(pre)
        f.add(("splice", seq.root, at))
        self.pre = set(f)

    def check(self, seq, at):
        f = self.holder["found"]
        new = f - self.pre
        ok = new == {("names", "item_k")}
        self.obs.append(simple_ob("_collect_macro_names:list:INV", ME + "._collect_macro_names", "INV",
                                  "Inv preserved: after element k, found = union of Names@ of the elements seen so far", ok, P19,
                                  detail=repr(f), witness=repr(new)))


@scenario("macros:collect", ME + "._collect_macro_names", ["C19"], doc="Names@: every string element, dict value AND dict key that starts with '@', at any depth")
def collect():
    ensure()
    obs: List[Ob] = []
    func = ME + "._collect_macro_names"
    inner: List[Ob] = []
    holder: Dict[str, Any] = {}

    aux: Dict[str, Any] = {"a": None, "k": None}

    def with_stub(tree_mk, generalise=False):
        def fn():
            cls = J.mexp.MacroExpander
            orig = cls._collect_macro_names
            depth = {"d": 0}

            def gen(v):
                # an auxiliary integer parameter of the recursion (a depth, a counter): the induction hypothesis is used for
                # every value a recursive call can carry, so the step is proved for an arbitrary non-negative one
                if isinstance(v, int) and not isinstance(v, bool):
                    x = pyvc.sym_int("aux")
                    pyvc.assume(x.t >= 0)
                    return x
                return v

            def wrapped(self_e, tree, *a, **k):
                if depth["d"] == 0:
                    depth["d"] += 1
                    try:
                        if generalise and (aux["a"] or aux["k"]):
                            return orig(self_e, tree, *[gen(v) for v in aux["a"] or ()], **{n: gen(v) for n, v in (aux["k"] or {}).items()})
                        return orig(self_e, tree, *a, **k)
                    finally:
                        depth["d"] -= 1
                extras = list(a) + list(k.values())
                accs = [x for x in extras if isinstance(x, set)]
                if any(not (x is None or isinstance(x, (int, set))) for x in extras) or len(accs) > 1:
                    raise Unsupported("the recursion of _collect_macro_names carries a parameter the contract cannot interpret")
                if [x for x in extras if isinstance(x, int) and not isinstance(x, bool)]:
                    aux["a"], aux["k"] = tuple(x for x in a if not isinstance(x, set)), {n: v for n, v in k.items() if not isinstance(v, set)}
                if isinstance(tree, Opaque):
                    aux["ih"] = aux.get("ih", 0) + 1
                    res = {("names", tree.ident)}
                    if accs:
                        # an accumulator set threaded through the recursion: the callee adds Names@(tree) to it and hands it back
                        accs[0].update(res)
                        return accs[0]
                    return res
                return orig(self_e, tree, *a, **k)          # leaves: strings are decided by the real code
            cls._collect_macro_names = wrapped
            # expose the accumulator of the entry call to the loop contract
            real_set = set

            class Spy(set):
                def __init__(s, *a):
                    super().__init__(*a)
                    if "found" not in holder or holder.get("fresh"):
                        holder["found"] = s
                        holder["fresh"] = False
            holder["fresh"] = True
            J.mexp.set = Spy
            ctx().loop_contracts = {"_collect_macro_names": _CollectLoop(holder, inner)}
            try:
                return cls()._collect_macro_names(tree_mk())
            finally:
                cls._collect_macro_names = orig
                del J.mexp.set
        return fn
    cases = {
        "str-macro": (lambda: Name("mname", "at"), {"NAME"}),
        "str-plain": (lambda: Name("w"), set()),
        "list-seq": (lambda: SymSeq("items", Opaque("item_k"), 0), {("splice", "items", "len")}),
        "list-two": (lambda: [Opaque("a"), Name("mname", "at")], {("names", "a"), "NAME"}),
        "dict-key-macro": (lambda: {Name("mname", "at"): Opaque("body")}, {"NAME", ("names", "body")}),
        "dict-value-macro": (lambda: {"main_reg": Name("mname", "at"), "k": Opaque("v")}, {"NAME", ("names", "v")}),
        "int": (lambda: 7, set()),
    }
    runs = [(cid, mk, want, False) for cid, (mk, want) in cases.items()]
    k_ = 0
    while k_ < len(runs):
        cid, mk, want, general = runs[k_]
        k_ += 1
        if k_ == len(cases) and (aux["a"] or aux["k"]):
            # the recursion carries auxiliary parameters: the same cases again, entered with ARBITRARY values of them
            runs += [(cid2 + "@any-aux", mk2, want2, True) for cid2, (mk2, want2) in cases.items()]
        aux["ih"] = 0
        try:
            runr = sym_run(with_stub(mk, general))
        except Unsupported as e:
            obs.append(simple_ob(f"_collect_macro_names:{cid}:RUN", func, "RUN", "symbolic execution completes", None, P19, detail=f"unsupported: {e}"))
            continue
        needs_ih = any(isinstance(x, tuple) and x and x[0] == "names" for x in want)
        if needs_ih and not aux.get("ih"):
            # the children were never handed to the function under contract: the recursion runs through another function
            # (a helper introduced by a refactoring) -- the induction hypothesis of THIS contract says nothing about it
            obs.append(simple_ob(f"_collect_macro_names:{cid}:RUN", func, "RUN", "the recursion goes through the function under contract", None, P19,
                                 detail="unsupported: the children are not processed by recursive calls of _collect_macro_names (the contract does not fit the tree)"))
            continue
        for i, p in enumerate(runr.paths):
            got = p.value if p.kind == "ret" else None
            norm = set("NAME" if isinstance(x, Name) else x for x in (got or set())) if got is not None else None
            obs.append(simple_ob(f"_collect_macro_names:{cid}:p{i}:POST", func, "POST",
                                 f"[{cid}] result = the '@' strings among this node's own string / keys, united with Names@ of every child",
                                 p.kind == "ret" and norm == want, P19, detail=repr(got), witness=repr(norm)))
    obs.extend(worst_per_name(inner))
    return obs


@scenario("macros:sources", "jasm.jasm_regex.yaml2regex.Yaml2Regex._get_pattern", ["C13", "C19", "C17", "C14", "C15", "C18", "C01"],
          inlined=["load_macros_from_args"], doc="macros from extra files are prepended, in file order, to the rule's own macros")
def sources():
    ensure()
    obs: List[Ob] = []
    func = "jasm.jasm_regex.yaml2regex.Yaml2Regex._get_pattern"
    for files in ("none", "two", "seq"):
        for own in (False, True):
            calls: List[Any] = []

            def fn():
                calls.clear()
                Y = J.y2r.Yaml2Regex
                y = Y.__new__(Y)
                own_macros = [{"name": "@own", "pattern": "p"}] if own else []
                y.loaded_file = {"pattern": [Opaque("pat")], "macros": own_macros} if own else {"pattern": [Opaque("pat")]}
                y.macros_from_terminal_filepath = None if files == "none" else (
                    [Name("f1"), Name("f2")] if files == "two" else SymSeq("files", Name("f_k"), 1))
                o_lf = Y.load_file
                o_me = J.y2r.MacroExpander

                class ME2(o_me):      # the real class with ONE method under contract: its static helpers stay callable
                    def resolve_all_macros(self, macros, pattern_tree):
                        calls.append((macros, pattern_tree))
                        return "EXPANDED"
                Y.load_file = staticmethod(lambda file: {"macros": SymSeq("macros(" + file.ident + ")", Opaque("m(" + file.ident + ")"), 0)})
                J.y2r.MacroExpander = ME2
                # the rule's configuration as its constructor left it: obtaining the pattern must not write it
                cfg = J.gd.JASMConfig.get_instance()
                cfg.global_info.clear()
                marks = {k: object() for k in ("assembly_style", "valid_addr_range", "sections", "m-full", "o-full")}
                cfg.global_info.update(marks)
                try:
                    r_ = y._get_pattern()
                    cfg_now = J.gd.JASMConfig.get_instance()
                    kept = cfg_now is cfg and set(cfg_now.global_info.keys()) == set(marks) and all(cfg_now.global_info[k] is v for k, v in marks.items())
                    calls.append(("config-kept", kept, sorted(str(k) for k in cfg_now.global_info.keys())))
                    return [r_, list(calls), own_macros]
                finally:
                    Y.load_file = o_lf
                    J.y2r.MacroExpander = o_me
            try:
                runr = sym_run(fn)
            except Unsupported as e:
                obs.append(simple_ob(f"_get_pattern:files={files}:own={int(own)}:RUN", func, "RUN", "symbolic execution completes", None, P13,
                                     detail=f"unsupported: {e}"))
                continue
            for i, p in enumerate(runr.paths):
                base = f"_get_pattern:files={files}:own={int(own)}:p{i}"
                if p.kind != "ret":
                    obs.append(simple_ob(base + ":EXC", func, "EXC", "no exception", False, P13, detail=repr(p.value), witness="exc"))
                    continue
                r, cl, own_macros = p.value
                kept = [c for c in cl if isinstance(c, tuple) and c and c[0] == "config-kept"]
                cl = [c for c in cl if not (isinstance(c, tuple) and c and c[0] == "config-kept")]
                obs.append(simple_ob(base + ":FRAME-config", func, "FRAME",
                                     "obtaining the pattern (reading extra macro files, expanding) writes nothing to the configuration singleton: "
                                     "flags, style, range and sections stay those of the rule", bool(kept) and kept[0][1],
                                     ["C14", "C15", "C18", "C01", "C13"], detail=repr(kept), witness="config-written"))
                if files == "none" and not own:
                    ok = isinstance(r, dict) and not cl
                    obs.append(simple_ob(base + ":POST", func, "POST", "without any macro definition the pattern is not touched by the expander", ok, P13,
                                         detail=repr(r), witness="nomacros"))
                    continue
                ok = r == "EXPANDED" and len(cl) == 1 and list(cl[0][1].keys()) == ["$and"]
                ml = cl[0][0] if cl else None
                if ok:
                    def desc(x):
                        if isinstance(x, Splice):
                            return ("file", x.seq.root)
                        if isinstance(x, SymSeq):
                            return ("seq", x.root, getattr(x, "flatten", False))
                        if isinstance(x, dict):
                            return ("own", x.get("name"))
                        return ("?", repr(x))
                    if files == "none":
                        ok = ml == own_macros
                    elif files == "two":
                        head = [desc(x) for x in ml[:2]] if isinstance(ml, list) else None
                        ok = head == [("file", "macros(f1)"), ("file", "macros(f2)")] and [desc(x) for x in ml[2:]] == ([("own", "@own")] if own else [])
                    else:
                        # flatten(map(macros_of, files)) ++ own
                        if isinstance(ml, SymSeq):
                            ok = (not own) and ml.root == "files" and getattr(ml, "flatten", False)
                        else:
                            ok = isinstance(ml, list) and len(ml) >= 1 and isinstance(ml[0], Splice) and ml[0].seq.root == "files" \
                                and getattr(ml[0].seq, "flatten", False) and [desc(x) for x in ml[1:]] == ([("own", "@own")] if own else [])
                obs.append(simple_ob(base + ":POST", func, "POST",
                                     "the expander receives macros = (macros of the extra files, in file order) ++ (macros of the rule file) and the pattern wrapped in $and; its result is returned",
                                     ok, P13, detail=repr(ml)[:200], witness=repr(ml)[:80]))
    # the same postcondition on CONCRETE patterns at the edges: whether the expander runs depends on the macro definitions alone, never
    # on what the pattern looks like -- references embedded in longer texts, no reference at all (the expander also validates the
    # definitions' names), a reference as a key only
    for pid, pat in (("embedded", ["%e@r", {"mov": ["(@r)", "%rax"]}]), ("noref", ["push", {"mov": ["%rsp", "%rbp"]}]),
                     ("key-only", [{"@own": {"times": 2}}]), ("deep", [{"$or": ["nop", {"$and": [{"mov": ["x@ry"]}]}]}])):
        for src in ("own", "file"):
            calls2: List[Any] = []

            def fn2(pat=pat, src=src):
                calls2.clear()
                Y = J.y2r.Yaml2Regex
                y = Y.__new__(Y)
                pat_c = copy.deepcopy(pat)
                y.loaded_file = {"pattern": pat_c, "macros": [{"name": "@own", "pattern": "p"}]} if src == "own" else {"pattern": pat_c}
                y.macros_from_terminal_filepath = None if src == "own" else ["lib.yaml"]
                o_lf, o_me = Y.load_file, J.y2r.MacroExpander

                class ME3(o_me):
                    def resolve_all_macros(self, macros, pattern_tree):
                        calls2.append((macros, pattern_tree))
                        return "EXPANDED"
                Y.load_file = staticmethod(lambda file: {"macros": [{"name": "@r", "pattern": "ax"}]})
                J.y2r.MacroExpander = ME3
                try:
                    return [y._get_pattern(), list(calls2), pat_c]
                finally:
                    Y.load_file, J.y2r.MacroExpander = o_lf, o_me
            try:
                r2 = sym_run(fn2)
            except Unsupported as e:
                obs.append(simple_ob(f"_get_pattern:concrete:{pid}:{src}:RUN", func, "RUN", "symbolic execution completes", None, P13_19_17, detail=f"unsupported: {e}"))
                continue
            for i, p in enumerate(r2.paths):
                ok = p.kind == "ret" and p.value[0] == "EXPANDED" and len(p.value[1]) == 1 and isinstance(p.value[1][0][1], dict) \
                    and list(p.value[1][0][1].keys()) == ["$and"] and p.value[1][0][1]["$and"] == pat \
                    and [m.get("name") for m in p.value[1][0][0]] == (["@own"] if src == "own" else ["@r"])
                obs.append(simple_ob(f"_get_pattern:concrete:{pid}:{src}:p{i}:POST", func, "POST",
                                     f"[{pid}, definitions from the {src}] with a macro definition present the expander receives the definitions and the whole "
                                     "pattern under $and, whatever the pattern contains; its result is returned", ok, P13_19_17,
                                     detail=repr(p.value)[:200], witness=repr(pat)))
    return obs


@scenario("macros:sources-plumbing", "jasm.match.MasterOfPuppets.__init__", ["C13", "C20", "C19"],
          inlined=["MatchConfig.__init__ (dataclass)", "Yaml2Regex.__init__"],
          doc="the list of extra macro files reaches the compiler as the caller gave it: same files, same order, repeats kept")
def sources_plumbing():
    ensure()
    obs: List[Ob] = []
    func = "jasm.match.MasterOfPuppets.__init__"
    gd = J.gd
    given_lists = {"none": None, "one": ["m.yaml"], "not-alphabetical": ["z_site.yaml", "a_base.yaml"],
                   "repeat": ["m2.yaml", "m1.yaml", "m2.yaml"], "symbolic": "sym"}
    for lid, given in given_lists.items():
        rec: List[Any] = []

        def fn():
            rec.clear()
            files = None if given is None else ([Name("f1"), Name("f2")] if given == "sym" else list(given))
            mc = gd.MatchConfig(pattern_pathstr="p.yaml", input_file="in.s", input_file_type=gd.InputFileType.assembly, macros=files)
            seen_cfg = mc.macros

            class Y2:
                def __init__(self, *a, **k):
                    rec.append((a, dict(k)))

                def produce_regex(self):
                    return "x"
            o_y = J.match.Yaml2Regex
            J.match.Yaml2Regex = Y2
            try:
                J.match.MasterOfPuppets(match_config=mc)
            finally:
                J.match.Yaml2Regex = o_y
            return [files, seen_cfg, list(rec)]
        try:
            run = sym_run(fn)
        except Unsupported as e:
            obs.append(simple_ob(f"sources-plumbing:{lid}:RUN", func, "RUN", "symbolic execution completes", None, ["C13", "C20"], detail=f"unsupported: {e}"))
            continue
        for i, p in enumerate(run.paths):
            base = f"sources-plumbing:{lid}:p{i}"
            if p.kind != "ret":
                obs.append(simple_ob(base + ":EXC", func, "EXC", "no exception", False, ["C13", "C20"], detail=repr(p.value), witness=lid))
                continue
            files, seen_cfg, calls = p.value

            def same(a, b):
                if a is None or b is None:
                    return a is None and b is None
                return len(a) == len(b) and all(x is y or (isinstance(x, str) and not isinstance(x, Name) and x == y) for x, y in zip(a, b))
            obs.append(simple_ob(base + ":POST-config-field", "jasm.global_definitions.MatchConfig", "POST",
                                 f"[{lid}] MatchConfig.macros is the list the caller gave (same files, same order, repeats kept)",
                                 same(files, seen_cfg), ["C13", "C20"], detail=repr(seen_cfg), witness=repr(given)))
            okc = len(calls) == 1
            if okc:
                a, k = calls[0]
                got = k.get("macros_from_terminal", a[1] if len(a) > 1 else None)
                okc = same(files, got) and (a[0] if a else k.get("pattern_pathstr")) == "p.yaml"
            obs.append(simple_ob(base + ":POST-compiler-call", func, "POST",
                                 f"[{lid}] one compiler is built from (the rule path, the extra macro files as given)", okc, ["C13", "C20", "C19"],
                                 detail=repr(calls)[:200], witness=repr(given)))
    return obs



@scenario("macros:is-macro-name", ME + ".is_macro_name", ["C17", "C19", "C13"],
          doc="the predicate every undefined-macro check rests on: a text is a macro reference iff it starts with '@' -- whatever follows")
def is_macro_name_contract():
    ensure()
    obs: List[Ob] = []
    func = ME + ".is_macro_name"
    REST = "[a-zA-Z0-9_%$.+*@ -]*"
    cases = {
        # every text '@' + rest is a reference: identifiers, but also names with '-', '.', a leading digit, blanks, nothing at all
        "at-any": (lambda: lit("@") + var("rest", REST), True),
        "at-ident": (lambda: lit("@") + var("id", "[A-Za-z_][A-Za-z0-9_]*"), True),
        "at-odd": (lambda: lit("@") + var("a", "[a-z0-9]+") + var("sep", "[-.+ ]") + var("b", "[a-z0-9]*"), True),
        "at-digit": (lambda: lit("@") + var("d", "[0-9]") + var("b", "[a-z0-9_]*"), True),
        "at-alone": (lambda: lit("@"), True),
        # everything else is not: '@' further inside, the empty text
        "no-at-first": (lambda: var("c", "[a-zA-Z0-9_%$.+* -]") + var("rest", REST), False),
        "empty": (lambda: lit(""), False),
    }
    for cid, (mk, want) in cases.items():
        try:
            run = sym_run(lambda mk=mk: J.mexp.MacroExpander.is_macro_name(mk()))
        except Unsupported as e:
            obs.append(simple_ob(f"is_macro_name:{cid}:RUN", func, "RUN", "symbolic execution completes", None, ["C17", "C19"], detail=f"unsupported: {e}"))
            continue
        if not run.paths:
            obs.append(simple_ob(f"is_macro_name:{cid}:RUN", func, "RUN", "at least one path", None, ["C17", "C19"], detail="no path"))
        for i, p in enumerate(run.paths):
            ok = p.kind == "ret" and p.value is want
            obs.append(simple_ob(f"is_macro_name:{cid}:p{i}:POST", func, "POST",
                                 f"[{cid}] is_macro_name(text) is {want} for every such text (a reference is whatever starts with '@')",
                                 ok, ["C17", "C19", "C13"], detail=repr(p.value)[:120], witness=cid))
    return worst_per_name(obs)
