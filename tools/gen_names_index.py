#!/usr/bin/env python3
"""tools/gen_names_index.py : (re)generate contracts/names_index.json from /repo's current tree -- the names
(no code) of the functions, classes, methods and fields the sidecar contracts were written against.
Run it only when the contracts are updated to a new baseline tree."""
import json, os, sys
sys.path.insert(0, os.path.dirname(os.path.dirname(os.path.abspath(__file__))))
from vf import alpha
idx = alpha.scan_tree(os.path.join(os.environ.get("JASM_REPO", "/repo"), "src"))
json.dump(idx, open(alpha.INDEX, "w"), indent=0, sort_keys=True)
print(len(idx["modules"]), "modules,", len(idx["identifiers"]), "identifiers")
