#!/bin/bash
# tools/check_lean.sh : re-check the mechanised lemmas (Lean 4 + Mathlib, pre-installed under /opt/veriftools) and record the result
# in lean/last_check.json (file hashes included, so a stale record is never cited).  exit 0 iff both files check without error.
V=/verif
M=/opt/veriftools/mathlib4
ok=1; out="{"
for f in Decodable TLoop TSub; do
  log=$(cd $M && lake env lean $V/lean/$f.lean 2>&1); rc=$?
  h=$(sha256sum $V/lean/$f.lean | cut -c1-16)
  if [ $rc -ne 0 ] || echo "$log" | grep -q "error\|sorry"; then ok=0; st="FAILED"; else st="checked"; fi
  out="$out\"$f.lean\": {\"sha256_16\": \"$h\", \"status\": \"$st\"},"
  echo "$f.lean: $st"; [ "$st" = "FAILED" ] && echo "$log" | tail -5
done
ver=$(lean --version 2>/dev/null | head -1)
echo "${out}\"lean\": \"$ver\", \"mathlib\": \"/opt/veriftools/mathlib4 (v4.33.0)\", \"theorems\": {\"Decodable.lean\": [\"JASMStream.decode_encode\", \"JASMStream.encode_injective\"], \"TLoop.lean\": [\"TLoop.tloop\", \"TLoop.agree_add\", \"TLoop.agree_mul\", \"TLoop.agree_kstar\", \"TLoop.shortRuns_factorClosed\"], \"TSub.lean\": [\"TSub.subst_mono\", \"TSub.subst_congr\", \"TSub.subst_add\", \"TSub.subst_mul\", \"TSub.substWord_append\"]}}" > $V/lean/last_check.json
[ $ok = 1 ]
