#!/usr/bin/env python3
"""Mechanical mutation sweep (developer tool; complements the hand-written catalogue and the sub-agents' seeded changes).

  stage gen    : first-order mutants of src/jasm/**/*.py (comparison / boolean / arithmetic operators, constants, regex fragments
                 inside string constants, deleted statements, negated conditions, swapped arguments, slices), one file per mutant
                 under <work>/mutants/<id>/ (the whole mutated source + meta.json)
  stage tests  : the repository's test suite on every mutant; SURVIVORS are the mutants the 129 tests do not notice
  stage checks : for every survivor, the checks of the properties whose anchors name the mutated file (all 20 when none does);
                 killed = some check exits 1; undecided = some check exits 2 and none exits 1; missed = all exit 0
  stage report : table of survivors by outcome -> <work>/report.json  (missed ones need a human: equivalent mutant or gap)

usage: tools/mutate_sweep.py <stage> [--work /tmp/mut] [--jobs N] [--only substring]
Everything is done on scratch worktrees outside /repo and /verif; nothing is kept there afterwards.
"""
import argparse
import ast
import copy
import hashlib
import json
import os
import subprocess
import sys
import tempfile
from concurrent.futures import ThreadPoolExecutor

REPO = os.environ.get("JASM_REPO_BASE", "/repo")
VERIF = os.path.dirname(os.path.dirname(os.path.abspath(__file__)))
PY = "/venv/bin/python"

CMP_SWAP = {ast.Eq: ast.NotEq, ast.NotEq: ast.Eq, ast.Lt: ast.LtE, ast.LtE: ast.Lt, ast.Gt: ast.GtE, ast.GtE: ast.Gt,
            ast.In: ast.NotIn, ast.NotIn: ast.In, ast.Is: ast.IsNot, ast.IsNot: ast.Is}
REGEX_EDITS = [("+", "*"), ("*", "+"), ("?", ""), ("{0,1000}", "{1,1000}"), ("{0,1000}", "{0,100}"), ("[^,|]", "[^|]"), ("[^,|]", "[^,]"),
               ("::", ":"), (",|", "|"), ("(?:", "("), ("(?!", "(?="), ("\\d", "\\w"), ("^", ""), ("$", ""), ("\\|", "|"), ("[^|]", "[^,|]"),
               (",", ""), ("|", ""), ("0x", ""), ("%", ""), ("\\[", "["), ("abcedf", "abcdef0"), ("[^# ]", "[^ ]"), ("[^# ]", "[^#]")]


def src_files():
    out = []
    for d, _ds, fs in os.walk(os.path.join(REPO, "src", "jasm")):
        for f in fs:
            if f.endswith(".py"):
                out.append(os.path.join(d, f))
    return sorted(out)


CALL_SWAP = {"startswith": "endswith", "endswith": "startswith", "lstrip": "rstrip", "rstrip": "lstrip", "strip": "lstrip", "split": "rsplit",
             "any": "all", "all": "any", "min": "max", "max": "min", "search": "match", "match": "search", "finditer": "findall",
             "append": "extend", "update": "setdefault", "get": "pop", "items": "keys", "fullmatch": "match", "lower": "upper", "partition": "rpartition",
             "index": "count", "add": "discard"}
UNWRAP = {"deepcopy", "sorted", "list", "tuple", "set", "str", "reversed", "copy", "bool", "len"}


class Counter(ast.NodeVisitor):
    """enumerate mutation sites: list of (kind, node-index, variant)"""

    def __init__(self):
        self.sites = []
        self.idx = 0

    def generic_visit(self, node):
        i = self.idx
        self.idx += 1
        node._mi = i
        if isinstance(node, ast.Compare) and len(node.ops) == 1 and type(node.ops[0]) in CMP_SWAP:
            self.sites.append(("cmp", i, 0))
        if isinstance(node, ast.BoolOp):
            self.sites.append(("boolop", i, 0))
        if isinstance(node, ast.UnaryOp) and isinstance(node.op, ast.Not):
            self.sites.append(("not", i, 0))
        if isinstance(node, ast.BinOp) and isinstance(node.op, (ast.Add, ast.Sub)) and not isinstance(node.left, ast.Constant):
            self.sites.append(("arith", i, 0))
        if isinstance(node, ast.Constant):
            v = node.value
            if isinstance(v, bool):
                self.sites.append(("const", i, 0))
            elif isinstance(v, int):
                self.sites.append(("const", i, 0))
                self.sites.append(("const", i, 1))
            elif isinstance(v, str) and v and not getattr(node, "_doc", False):
                k = 0
                for a, b in REGEX_EDITS:
                    if a in v:
                        self.sites.append(("str", i, k))
                    k += 1
        if isinstance(node, (ast.If, ast.While)):
            self.sites.append(("negcond", i, 0))
        if isinstance(node, ast.If) and node.orelse:
            self.sites.append(("dropelse", i, 0))
        if isinstance(node, (ast.Expr, ast.Assign, ast.AugAssign, ast.Raise, ast.Continue, ast.Break)) and not getattr(node, "_doc", False):
            self.sites.append(("delstmt", i, 0))
        if isinstance(node, ast.Return) and node.value is not None and not (isinstance(node.value, ast.Constant) and node.value.value is None):
            self.sites.append(("retnone", i, 0))
        if isinstance(node, ast.Call) and len(node.args) == 2 and not node.keywords:
            self.sites.append(("swapargs", i, 0))
        if isinstance(node, ast.Subscript) and isinstance(node.slice, ast.Slice):
            self.sites.append(("slice", i, 0))
        if isinstance(node, ast.Subscript) and isinstance(node.slice, ast.Constant) and isinstance(node.slice.value, int):
            self.sites.append(("index", i, 0))
            if node.slice.value in (0, -1):
                self.sites.append(("endidx", i, 0))
        if isinstance(node, ast.Call):
            fname = node.func.attr if isinstance(node.func, ast.Attribute) else (node.func.id if isinstance(node.func, ast.Name) else None)
            if fname in CALL_SWAP:
                self.sites.append(("callswap", i, 0))
            if fname in UNWRAP and len(node.args) == 1 and not node.keywords:
                self.sites.append(("unwrap", i, 0))
            if node.keywords:
                self.sites.append(("dropkw", i, 0))
        if isinstance(node, ast.IfExp):
            self.sites.append(("ifexp", i, 0))
        if isinstance(node, ast.Attribute) and isinstance(node.ctx, ast.Load) and node.attr in ("min", "max", "min_times", "max_times", "addr", "mnemonic",
                                                                                               "operands", "min_addr", "max_addr"):
            self.sites.append(("attrswap", i, 0))
        super().generic_visit(node)


def mark_docstrings(tree):
    for n in ast.walk(tree):
        if isinstance(n, (ast.Module, ast.FunctionDef, ast.ClassDef, ast.AsyncFunctionDef)) and n.body and isinstance(n.body[0], ast.Expr) \
                and isinstance(n.body[0].value, ast.Constant) and isinstance(n.body[0].value.value, str):
            n.body[0]._doc = True
            n.body[0].value._doc = True


class Apply(ast.NodeTransformer):
    def __init__(self, kind, idx, var):
        self.kind, self.target, self.var = kind, idx, var
        self.idx = 0
        self.done = None

    def generic_visit(self, node):
        i = self.idx
        self.idx += 1
        node = super().generic_visit(node)
        if i != self.target:
            return node
        k = self.kind
        if k == "cmp":
            node.ops = [CMP_SWAP[type(node.ops[0])]()]
            self.done = "comparison operator swapped"
        elif k == "boolop":
            node.op = ast.Or() if isinstance(node.op, ast.And) else ast.And()
            self.done = "and <-> or"
        elif k == "not":
            self.done = "`not` removed"
            return node.operand
        elif k == "arith":
            node.op = ast.Sub() if isinstance(node.op, ast.Add) else ast.Add()
            self.done = "+ <-> -"
        elif k == "const":
            v = node.value
            if isinstance(v, bool):
                node.value = not v
            else:
                node.value = v + 1 if self.var == 0 else v - 1
            self.done = f"constant {v!r} -> {node.value!r}"
        elif k == "str":
            a, b = REGEX_EDITS[self.var]
            v = node.value
            node.value = v.replace(a, b, 1)
            self.done = f"string constant: first {a!r} -> {b!r} in {v[:40]!r}"
        elif k == "negcond":
            node.test = ast.UnaryOp(op=ast.Not(), operand=node.test)
            self.done = "condition negated"
        elif k == "dropelse":
            node.orelse = []
            self.done = "else branch removed"
        elif k == "delstmt":
            self.done = f"statement removed: {ast.unparse(node)[:60]}"
            return ast.copy_location(ast.Pass(), node)
        elif k == "retnone":
            self.done = f"return value dropped: {ast.unparse(node)[:60]}"
            node.value = ast.Constant(value=None)
        elif k == "swapargs":
            node.args = [node.args[1], node.args[0]]
            self.done = "two positional arguments swapped"
        elif k == "slice":
            s = node.slice
            if s.lower is not None and isinstance(s.lower, ast.Constant) and isinstance(s.lower.value, int):
                s.lower = ast.Constant(value=s.lower.value + 1)
            elif s.upper is not None and isinstance(s.upper, ast.Constant) and isinstance(s.upper.value, int):
                s.upper = ast.Constant(value=s.upper.value - 1)
            else:
                s.lower = ast.Constant(value=1)
            self.done = "slice bound shifted by one"
        elif k == "index":
            node.slice = ast.Constant(value=node.slice.value + 1 if node.slice.value >= 0 else node.slice.value - 1)
            self.done = "constant index shifted by one"
        elif k == "endidx":
            node.slice = ast.Constant(value=-1 if node.slice.value == 0 else 0)
            self.done = "first <-> last element"
        elif k == "callswap":
            if isinstance(node.func, ast.Attribute):
                old = node.func.attr
                node.func.attr = CALL_SWAP[old]
            else:
                old = node.func.id
                node.func.id = CALL_SWAP[old]
            self.done = f"call {old} -> {CALL_SWAP[old]}"
        elif k == "unwrap":
            self.done = f"call removed, argument kept: {ast.unparse(node)[:60]}"
            return node.args[0]
        elif k == "dropkw":
            self.done = f"last keyword argument dropped: {ast.unparse(node)[:60]}"
            node.keywords = node.keywords[:-1]
        elif k == "ifexp":
            node.body, node.orelse = node.orelse, node.body
            self.done = "branches of a conditional expression swapped"
        elif k == "attrswap":
            pairs = {"min": "max", "max": "min", "min_times": "max_times", "max_times": "min_times", "addr": "mnemonic", "mnemonic": "addr",
                     "operands": "mnemonic", "min_addr": "max_addr", "max_addr": "min_addr"}
            self.done = f"attribute .{node.attr} -> .{pairs[node.attr]}"
            node.attr = pairs[node.attr]
        return node


def stage_gen(work, only):
    os.makedirs(os.path.join(work, "mutants"), exist_ok=True)
    n = 0
    for f in src_files():
        rel = os.path.relpath(f, REPO)
        if only and only not in rel:
            continue
        src = open(f).read()
        tree = ast.parse(src)
        mark_docstrings(tree)
        c = Counter()
        c.visit(tree)
        seen = set()
        for kind, idx, var in c.sites:
            t2 = copy.deepcopy(tree)
            ap = Apply(kind, idx, var)
            t2 = ap.visit(t2)
            if not ap.done:
                continue
            ast.fix_missing_locations(t2)
            try:
                new = ast.unparse(t2)
                compile(new, f, "exec")
            except Exception:
                continue
            h = hashlib.sha1((rel + new).encode()).hexdigest()[:10]
            if h in seen or new == ast.unparse(tree):
                continue
            seen.add(h)
            d = os.path.join(work, "mutants", h)
            os.makedirs(d, exist_ok=True)
            open(os.path.join(d, "mutated.py"), "w").write(new)
            json.dump({"id": h, "file": rel, "kind": kind, "what": ap.done}, open(os.path.join(d, "meta.json"), "w"))
            n += 1
    print(f"{n} mutants under {work}/mutants")


def with_tree(meta_dir, fn):
    meta = json.load(open(os.path.join(meta_dir, "meta.json")))
    s = tempfile.mkdtemp(prefix="mutchk.", dir="/tmp")
    os.rmdir(s)
    subprocess.run(["git", "-C", REPO, "worktree", "add", "-q", "--detach", s, "HEAD"], check=True)
    try:
        open(os.path.join(s, meta["file"]), "w").write(open(os.path.join(meta_dir, "mutated.py")).read())
        return fn(s, meta)
    finally:
        subprocess.run(["git", "-C", REPO, "worktree", "remove", "--force", s], capture_output=True)


def run_tests(meta_dir):
    out = os.path.join(meta_dir, "tests.json")
    if os.path.exists(out):
        return json.load(open(out))

    def f(s, meta):
        env = dict(os.environ, PYTHONPATH=os.path.join(s, "src"))
        try:
            p = subprocess.run([PY, "-m", "pytest", "-q", "-x", "-p", "no:cacheprovider", "--timeout=120",
                                "--deselect", "tests/test_yaml2regex.py", "-q"], cwd=s, env=env, capture_output=True, text=True, timeout=900)
            tail = (p.stdout.strip().split("\n") or [""])[-1]
        except subprocess.TimeoutExpired:
            tail = "timeout"
        return {"tail": tail}
    r = with_tree(meta_dir, f)
    json.dump(r, open(out, "w"))
    return r


def stage_tests(work, jobs, only):
    ds = sorted(os.path.join(work, "mutants", d) for d in os.listdir(os.path.join(work, "mutants")))
    if only:
        ds = [d for d in ds if only in json.load(open(os.path.join(d, "meta.json")))["file"]]
    # baseline: how the unchanged tree's suite ends (3 known failures)
    with ThreadPoolExecutor(jobs) as ex:
        res = list(ex.map(run_tests_full, ds))
    surv = [d for d, r in zip(ds, res) if r.get("survivor")]
    print(f"{len(ds)} mutants, {len(surv)} survive the test suite")


def run_tests_full(meta_dir):
    out = os.path.join(meta_dir, "tests.json")
    if os.path.exists(out):
        return json.load(open(out))

    def f(s, meta):
        env = dict(os.environ, PYTHONPATH=os.path.join(s, "src"))
        try:
            p = subprocess.run([PY, "-m", "pytest", "-q", "-p", "no:cacheprovider", "--timeout=120"], cwd=s, env=env,
                               capture_output=True, text=True, timeout=1200)
            tail = (p.stdout.strip().split("\n") or [""])[-1]
        except subprocess.TimeoutExpired:
            tail = "timeout"
        return {"tail": tail, "survivor": ("129 passed" in tail and "3 failed" in tail)}
    r = with_tree(meta_dir, f)
    json.dump(r, open(out, "w"))
    return r


def props_for(rel):
    ps = []
    for l in open(os.path.join(VERIF, "properties.jsonl")):
        d = json.loads(l)
        if any(rel.endswith(a) or a.endswith(rel) for a in d["anchors"]["files"]):
            ps.append(d["id"])
    return ps or [f"C{k:02d}" for k in range(1, 21)]


def run_checks(meta_dir):
    out = os.path.join(meta_dir, "checks.json")
    if os.path.exists(out):
        return json.load(open(out))

    def f(s, meta):
        res = {}
        for p in props_for(meta["file"]):
            q = subprocess.run([os.path.join(VERIF, "check"), p, "--jobs", "4"], env=dict(os.environ, JASM_REPO=s), capture_output=True, text=True)
            res[p] = q.returncode
            if q.returncode == 1:
                break
        return res
    r = with_tree(meta_dir, f)
    json.dump(r, open(out, "w"))
    return r


def stage_checks(work, jobs, only):
    ds = sorted(os.path.join(work, "mutants", d) for d in os.listdir(os.path.join(work, "mutants")))
    ds = [d for d in ds if os.path.exists(os.path.join(d, "tests.json")) and json.load(open(os.path.join(d, "tests.json"))).get("survivor")]
    if only:
        ds = [d for d in ds if only in json.load(open(os.path.join(d, "meta.json")))["file"]]
    with ThreadPoolExecutor(jobs) as ex:
        list(ex.map(run_checks, ds))
    stage_report(work)


def stage_report(work):
    rows = []
    for d in sorted(os.listdir(os.path.join(work, "mutants"))):
        md = os.path.join(work, "mutants", d)
        meta = json.load(open(os.path.join(md, "meta.json")))
        t = json.load(open(os.path.join(md, "tests.json"))) if os.path.exists(os.path.join(md, "tests.json")) else None
        c = json.load(open(os.path.join(md, "checks.json"))) if os.path.exists(os.path.join(md, "checks.json")) else None
        if not t or not t.get("survivor") or c is None:
            continue
        outcome = "killed" if 1 in c.values() else ("undecided" if any(v not in (0, 1) for v in c.values()) else "missed")
        rows.append(dict(meta, checks=c, outcome=outcome))
    json.dump(rows, open(os.path.join(work, "report.json"), "w"), indent=1)
    from collections import Counter as C
    print(C(r["outcome"] for r in rows))
    for r in rows:
        if r["outcome"] != "killed":
            print(r["outcome"], r["id"], r["file"].split("/")[-1], r["kind"], "|", r["what"][:90])


if __name__ == "__main__":
    ap = argparse.ArgumentParser()
    ap.add_argument("stage", choices=["gen", "tests", "checks", "report"])
    ap.add_argument("--work", default="/tmp/mut")
    ap.add_argument("--jobs", type=int, default=4)
    ap.add_argument("--only", default="")
    a = ap.parse_args()
    if a.stage == "gen":
        stage_gen(a.work, a.only)
    elif a.stage == "tests":
        stage_tests(a.work, a.jobs, a.only)
    elif a.stage == "checks":
        stage_checks(a.work, a.jobs, a.only)
    else:
        stage_report(a.work)
