#!/bin/bash
# tools/batch_r2.sh <ids...>  : confirm round-3 seeded changes (worktrees /tmp/wt/r3_<ID>) and run the property's check
for ID in "$@"; do
  if [ ! -f /tmp/wt/r3_$ID/demo_seeded.py ]; then echo "$ID: not ready"; continue; fi
  out=$(/verif/tools/try_seed.sh r3_$ID r3_$ID $ID 2>&1)
  echo "$ID: $(echo "$out" | grep -E 'demo_without|demo_with|passed|-> check|DOES NOT APPLY' | tr '\n' ' ')"
done
