import json,sys
tmpl=open('/verif/tools/seed_prompt_template.txt').read()
for l in open('/verif/properties.jsonl'):
    d=json.loads(l)
    q=d['quantifier']; qt=q['text'] if isinstance(q,dict) else q
    p=tmpl.replace('@ID@',d['id']).replace('@WT@','r10_'+d['id']).replace('@TITLE@',d['title']).replace('@STMT@',d['statement']).replace('@Q@',qt)
    open('/tmp/wt/r10_%s.full.txt'%d['id'],'w').write(p)
