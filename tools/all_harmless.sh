#!/bin/bash
# tools/all_harmless.sh : re-apply every behaviour-preserving patch under harmless/ to a scratch worktree and run all 20 checks on it.
# PROPS="C01 C03" tools/all_harmless.sh restricts the checks (default: all 20).
# Expected: "nonzero:[ none]" on every line.
cd /verif
(for id in $(ls -d harmless/C*_* | xargs -n1 basename | sed "s/_[0-9]*$//" | sort -u); do tools/try_harmless.sh $id $PROPS; done
 for id in $(ls -d harmless/sC*_* 2>/dev/null | xargs -n1 basename | sed "s/_[0-9]*$//; s/^s//" | sort -u); do HPREFIX=h2 tools/try_harmless.sh $id $PROPS; done
 for id in $(ls -d harmless/tC*_* 2>/dev/null | xargs -n1 basename | sed "s/_[0-9]*$//; s/^t//" | sort -u); do HPREFIX=h3 tools/try_harmless.sh $id $PROPS; done
 for id in $(ls -d harmless/uC*_* 2>/dev/null | xargs -n1 basename | sed "s/_[0-9]*$//; s/^u//" | sort -u); do HPREFIX=h4 tools/try_harmless.sh $id $PROPS; done) | tee /tmp/all_harmless.out
! grep -v "nonzero:\[ none\]" /tmp/all_harmless.out | grep -q .
