#!/bin/bash
# tools/all_seeds.sh : apply every seeded change (seeded/<id>/patch.diff) to a scratch worktree of /repo HEAD and run its property's check;
# prints one line per change; exit 1 if any change is not reported with exit 1.   (tests/demos are not re-run here: see try_seed.sh)
V=/verif
one() {
  NAME="$1"; D=$V/seeded/$NAME
  [ -f "$D/patch.diff" ] || { echo "$NAME: no patch (note only)"; return 0; }
  P=$(python3 -c "import json,sys; print(json.load(open('$D/meta.json'))['property'])")
  S=$(mktemp -d /tmp/seedall.XXXXXX); rmdir "$S"
  git -C /repo worktree add -q --detach "$S" HEAD || { echo "$NAME: worktree failed"; return 1; }
  if ! git -C "$S" apply "$D/patch.diff" 2>/dev/null; then echo "$NAME: $P PATCH-DOES-NOT-APPLY"; git -C /repo worktree remove --force "$S"; return 0; fi
  JASM_REPO="$S" $V/check "$P" >/dev/null 2>&1; rc=$?
  git -C /repo worktree remove --force "$S"
  echo "$NAME: $P exit=$rc"
}
export -f one; export V
ls $V/seeded | xargs -P 4 -I{} bash -c 'one {}' | sort | tee /tmp/all_seeds.out
! grep -v "exit=1\|no patch\|DOES-NOT-APPLY" /tmp/all_seeds.out | grep -q .
