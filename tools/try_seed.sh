#!/bin/bash
# tools/try_seed.sh <ID> [name] : confirm a sub-agent's seeded change and run the checks against it.
# 1. saves /tmp/wt/<ID> diff + demo into seeded/<name>/ ; 2. applies it to a fresh scratch worktree of /repo HEAD;
# 3. runs the repository's tests and the demo with/without the change; 4. runs ./check for the given properties on it.
set -u
ID="$1"; NAME="${2:-$ID}"; shift; shift || true
V=/verif; D=$V/seeded/$NAME; mkdir -p "$D"
if [ -d /tmp/wt/$ID ]; then
  git -C /tmp/wt/$ID diff > "$D/patch.diff"
  cp /tmp/wt/$ID/demo_seeded.py "$D/demo_seeded.py" 2>/dev/null
fi
S=$(mktemp -d /tmp/seedchk.XXXXXX); rmdir "$S"
git -C /repo worktree add -q --detach "$S" HEAD || exit 9
cp "$D/demo_seeded.py" "$S/" 2>/dev/null
cd "$S"
echo "== demo on unchanged HEAD"; PYTHONPATH=$S/src /venv/bin/python demo_seeded.py >/dev/null 2>&1; echo "demo_without=$?"
if ! git apply "$D/patch.diff" 2>/tmp/apply.err; then echo "PATCH DOES NOT APPLY to HEAD: $(head -3 /tmp/apply.err)"; cd /; git -C /repo worktree remove --force "$S"; exit 8; fi
echo "== tests with change"; PYTHONPATH=$S/src /venv/bin/python -m pytest -q -p no:cacheprovider --timeout=900 2>&1 | tail -1
echo "== demo with change"; PYTHONPATH=$S/src /venv/bin/python demo_seeded.py >/dev/null 2>&1; echo "demo_with=$?"
cd $V
for P in "$@"; do
  JASM_REPO="$S" ./check "$P" 2>&1 | grep -E "VIOLATION|UNDECIDED|INTERNAL|^OK" | head -6
  echo "  -> check $P exit=${PIPESTATUS[0]}"
done
git -C /repo worktree remove --force "$S"
