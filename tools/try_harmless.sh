#!/bin/bash
# tools/try_harmless.sh <Cxx> [props...] : take the behaviour-preserving patches a sub-agent left in /tmp/wt/h_<Cxx>/harmless_k.diff (or, when
# that worktree is gone, the copies under harmless/<Cxx>_k/), apply each to a fresh scratch worktree of /repo HEAD, run the repository's tests and
# the checks (default: all 20).  Expected: every check exits 0.
set -u
ID="$1"; shift
V=/verif
HP="${HPREFIX:-h}"          # h = first corpus (cosmetic / local refactors), h2 = structural refactors (harmless/s<Cxx>_k), h3 = additive / tuning edits (harmless/t<Cxx>_k), h4 = library-boundary equivalents / harmless changes at a distance (harmless/u<Cxx>_k)
TAG=""; [ "$HP" = "h2" ] && TAG="s"; [ "$HP" = "h3" ] && TAG="t"; [ "$HP" = "h4" ] && TAG="u"
PROPS="$*"; [ -z "$PROPS" ] && PROPS=$(seq -f "C%02g" 1 20)
for k in 1 2 3 4; do
  D=$V/harmless/${TAG}${ID}_$k; mkdir -p "$D"
  [ -f /tmp/wt/${HP}_$ID/harmless_$k.diff ] && cp /tmp/wt/${HP}_$ID/harmless_$k.diff "$D/patch.diff"
  [ -s "$D/patch.diff" ] || { echo "${TAG}${ID}_$k: no patch"; rmdir "$D" 2>/dev/null; continue; }
  S=$(mktemp -d /tmp/harmchk.XXXXXX); rmdir "$S"
  git -C /repo worktree add -q --detach "$S" HEAD || exit 9
  if ! git -C "$S" apply "$D/patch.diff" 2>/dev/null; then echo "${TAG}${ID}_$k: PATCH-DOES-NOT-APPLY"; git -C /repo worktree remove --force "$S"; continue; fi
  T=$(cd "$S" && PYTHONPATH=$S/src /venv/bin/python -m pytest -q -p no:cacheprovider --timeout=900 2>&1 | tail -1)
  res=""
  O=$(mktemp -d /tmp/harmout.XXXXXX)
  for P in $PROPS; do
    ( JASM_REPO="$S" $V/check "$P" --jobs 2 > "$O/$P.out" 2>&1; echo $? > "$O/$P.rc" ) &
  done
  wait
  rm -f "$D"/last_*.out
  for P in $PROPS; do
    rc=$(cat "$O/$P.rc")
    if [ "$rc" != "0" ]; then res="$res $P=$rc"; cp "$O/$P.out" "$D/last_$P.out"; fi
  done
  rm -rf "$O"
  git -C /repo worktree remove --force "$S"
  echo "${TAG}${ID}_$k: tests[$T] nonzero:[${res:- none}]"
done
