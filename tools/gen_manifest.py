#!/usr/bin/env python3
"""Regenerates /verif/MANIFEST.json from the table below (kept valid at all times)."""
import json, os, sys
ROOT = os.path.dirname(os.path.dirname(os.path.abspath(__file__)))
ids = [json.loads(l)["id"] for l in open(os.path.join(ROOT, "properties.jsonl"))]

COMMON_NOTE = ("Trusted base: the verifier itself (pyvc path exploration + proxy models + T1-T5 instrumentation, rx/rxeq automata, "
               "z3 5.1), CPython 3.12 for every concrete step, T-regex (leftmost match of the standard match relation), "
               "paper lemmas T-loop / T-sub / T-cat, A-len (records <= 256 chars), names separator-free. ")
CLAIMS = {
 "C01": ("other", "Contract-based deductive verification of the real get_regex/builder functions: every path of PatternNodeMnemonic/PatternNodeOperand/NodeAnd.get_regex, the typing handlers and Yaml2Regex.produce_regex is executed on opaque names, opaque closed children, a symbolic child sequence and all 4 flag settings; each result is proved language-equal (on all well-formed streams, from a record/field boundary) to the specification written from the statement. Level 'other' only because one listed known finding (names of the form [0-9a-f]+h) leaves 2 obligations refuted; everything else is discharged for all inputs.",
         "6.C01", "DEN/END/ENTRY/START/UNIT/CLOSED language VCs over the extended alphabet (rxeq product automata) on regex text produced by symbolic execution of the real functions"),
 "C02": ("proof", "POST obligations on _get_times over all YAML spellings with symbolic integers (z3), on get_min_max_regex, and for each of the 7 wrappers: the result is Rep(G,min,max) with G one non-capturing group whose body is language-equal to ONE un-repeated occurrence; plus exact automata checks for concrete bounds (0,1),(0,2),(2,2),(1,3). Unbounded in bounds, arity and listing.",
         "6.C02", "symbolic execution of the real functions + z3 integer VCs + structural Rep/Group check + rxeq language equality"),
 "C03": ("proof", "For each of $or/$and/$and_any_order at instruction, operand and deref level and children given as 1-3 opaque closed regexes, repeated children, or a symbolic sequence of any length: the real get_regex is language-equal to alternation / sequence / union over permutations, every alternative grouped (CLOSED), children entered at boundaries (ENTRY); typing handlers build the children in order with the operator's own context. Nesting follows by structural induction (T-sub).",
         "6.C03", "big-operator abstraction of T2/T3-instrumented comprehensions/joins + rxeq language equality + typing POSTs with recursive builds replaced by their contract"),
 "C04": ("proof", "NodeNot / NodeNotOperand.get_regex proved equal to 'negative look-ahead on the argument, then exactly one record / one operand field', START/END/UNIT/ENTRY, times wrappers; NotHandler typing (arity errors, child typed in the same context).",
         "6.C04", "rxeq language VCs with look-ahead letters + typing POSTs"),
 "C05": ("proof", "CapturesManager.get_capture_index / capture_is_registered on a table of any length (search-loop rule: the value returned is 1 + the least index whose entry equals the name, ValueError iff absent); the 4 capture builders against that contract (any table) (first occurrence registers + Reference, later occurrence Call with the registration index), exactly one capturing group per Reference node and none in any other node class (CAPS on every node scenario), DEN of all 9 capture node classes against the denotation incl. the README register table at operand and deref level, typing order. Concrete tables of <= 4 names are run in addition (reported as bounded checks).",
         "6.C05", "rxeq language VCs with capture/back-reference letters; pinned second specs for known findings"),
 "C07": ("proof", "START-a/b/c, END, UNIT, ENTRY, CLOSED for every instruction-level and operand-level node class (incl. capture and register-capture nodes), for whole compiled item-list rules, and for the shipped @any macro placed in operand and mnemonic position through the real node classes; get_first_addr POST. With T-regex (assumed) every reported match is a whole number of records starting at a record start.",
         "6.C07", "rxeq START/END/UNIT VCs"),
 "C06": ("proof", "Compiler half proved for all inputs: PatternNodeDeref/DerefObjectBuilder/DerefObject on every present/absent combination (index and scale together), opaque components, opaque names and concrete representative names, times wrappers; language-equal to [a(+b*c)?(+k)?], with optional % / 0x, exact brackets, comma terminator. Parser half: OperandsParser._process_operand_elem on every memory-operand form with symbolic components yields exactly [a+b*c+k] / [a+b*c] / [+b*c+k] / [a+k] / [a] (symre on structured strings); the joint statement follows because the normal-form text is an instance of the specification language with the same present components.",
         "6.C06", "rxeq language equality of the real deref regex against the bracket-form specification + symbolic execution of the operand normaliser on structured strings"),
 "C11": ("proof", "Loop invariant over the symbolic sequence M = finditer(rule, stream): addr_list = map(f, M[:k]), nothing else appended; first-match = search; exactly one engine call with (rule, whole stream); START/END of every instruction-level node (so the hits T-regex reports are record-aligned and non-overlapping). The scan properties themselves (leftmost, non-overlapping, complete) are T-regex, assumed.",
         "6.C11", "T1 loop rule with explicit inductive invariant on the real do_match_all_findings + rxeq START/END VCs"),
 "C12": ("proof", "MatchedObserver invariant matched <=> addr_list != []; POST of _do_matching_and_get_result for the 2x2x3 mode combinations: the value returned is a field of the one observer; FRAME: the engine call does not depend on return mode / address-only flag; first-match vs all-matches only selects search vs finditer.",
         "6.C12", "symbolic execution of the real driver with the regex engine and producer replaced by their assumed contracts"),
 "C14": ("other", "load_config proved to overwrite each of the five keys as a function of the current config (singleton pre-filled with sentinels = arbitrary history); keys read are a subset of keys written (static); capture table and objdump flag list allocated per operation; FRAME scan of process-global state. 'other' because the frame condition is a static scan plus a bounded history sweep (thorough tier), not a proof over all code paths.",
         "6.C14", "POST over sentinel-initialised singleton + static frame scan + bounded history replay"),
 "C15": ("proof", "argv = objdump -d -M att [-j s]* file for a symbolic section list (loop summarised by T1), stdout returned unchanged on exit status 0, every failure raises; both routes build the same parser/producer classes; process_file hands exactly the disassembly text to the parser. objdump itself is external (assumed).",
         "6.C15", "symbolic execution with subprocess/Path replaced by stubs that enumerate every outcome"),
 "C17": ("other", "Exceptional postconditions on the real functions for each wrongly-shaped input (symbolic integers for the bounds, enumerated YAML shapes), static scan that no handler swallows an exception, and every fault of the statement injected into a valid pair through the real entry point in a subprocess (fault enumeration, one representative pair per fault: bounded). One listed known finding: an undefined @name in a rule without any macro definition is not reported (pinned by the repository's own test).",
         "6.C17", "EXC obligations by symbolic execution + handler scan + fault injection through MasterOfPuppets"),
 "C18": ("proof", "ValidAddrObserver.observe_instruction over symbolic hexadecimal bounds and targets (value = uninterpreted hexval, 0x stripping executed by the real HexType): tagged iff direct branch mnemonic, hexadecimal target, min <= target <= max; call/jmp must be tagged when in range; everything else returned unchanged; observer installed iff the rule configures a range (reset otherwise).",
         "6.C18", "z3 integer VCs on path conditions of the real observer"),
 "C20": ("proof", "parse_args_from_console on every combination of the options (exhaustive over option presence: 144 command lines); main(): Namespace -> MatchConfig plumbing with opaque values for all 16 flag combinations, one perform_matching call, no try on the path to the interpreter; log records: one 'Matched address' INFO record per appended element (loop invariant) and 'RESULT: Pattern found' iff matched; default logger configuration.",
         "6.C20", "symbolic execution of main with stubs + exhaustive argparse enumeration + ghost log invariants"),
 "C08": ("proof", "Relative to the objdump line grammar G (assumed, appendix B): the real LineParser.parse runs on every line shape of G with all variable parts symbolic (structured strings; re.match groups derived by uniqueness VCs): instruction lines yield an Instruction carrying the line's address and first instruction token, continuation lines the dropped pseudo-instruction, every other line kind no instruction, no shape raises; every operand text of G is normalised without exception; pipeline loop invariant: exactly the Instruction results reach the consumer, in order.",
         "6.C08", "symbolic execution on structured strings + symre (group uniqueness as annotated-language VCs) + T1 loop invariant"),
 "C09": ("proof", "get_splitted_operands on every mix of 1-3 operand forms (quick: 8 representative forms for triples, thorough: all 14) splits exactly at the commas between operands; _process_operand_elem maps each of the forms of the statement to its normal form, components symbolic; parse() preserves number and order (symbolic sequence).",
         "6.C09", "symre split/search on structured strings; POST equality of structured results"),
 "C10": ("proof", "Instruction.stringify / consume_instruction / finalize produce addr::mnemonic,op,...,| records concatenated in order (symbolic fields, symbolic operand sequence); CLEAN: address, mnemonic and every normalised operand form of G contain no ',', '|' or '::'. Unique decodability / injectivity then follows by the lemma that a grammar whose separators never occur inside fields is uniquely decodable -- machine-checked (Lean 4 + Mathlib, lean/Decodable.lean: decode (encode is) = is for every list of valid records, hence encode is injective); the thorough tier decodes the real stream back and compares it with the independently decoded listing.",
         "6.C10", "POST on the encoder + CLEAN language VCs on the parser's result fields"),
 "C16": ("proof", "Same obligations as C08: in every line shape the padding, byte column, annotation and comment are universally quantified variables that do not occur in the result term (addr, mnemonic, operand token only); label / blank / header / section / elision lines yield no instruction. Scope: listings with a raw-byte column (grammar G); free text that does not contain the keyword data16.",
         "6.C16", "symbolic execution on structured strings: presentation variables absent from the result"),
 "C13": ("other", "Deductive: the single-step functions of MacroExpander (string positions on structured strings, dict positions with list children as symbolic sequences, key-with-times and call forms) are proved equal to the functional substitution subst1 with the recursion replaced by its contract; resolve_all_macros = ordered fold over a deep copy; extra macro files prepended in file order (symbolic file list). Bounded (never counted as proved): MacroArgsResolver against simultaneous substitution and whole expansions against the reference inliner on enumerated rules (vf/sweeps.py).",
         "6.C13", "symbolic execution with recursion stubs + bounded comparison with a reference inliner"),
 "C19": ("proof", "resolve_all_macros: names not starting with '@' rejected; on normal return the returned tree is exactly the tree that _collect_macro_names found free of '@' names; _collect_macro_names proved to return every '@' string among list items, dict values and dict keys at any depth (recursion by contract, list loop by invariant); ghost effect of each expansion step on rule_macros.",
         "6.C19", "POST + loop invariant on the real scan function; structural induction by recursion stub"),
}
TODO = {}
checks = []
for pid, (cat, text, ref, tech) in CLAIMS.items():
    checks.append({
        "property_id": pid,
        "quick_cmd": f"./check {pid} --tier quick",
        "thorough_cmd": f"./check {pid} --tier thorough",
        "evidence_file": f"/verif/evidence/{pid}.json",
        "replay_cmd_template": f"./check {pid} --replay {{path}}",
        "engine": "pyvc+rxeq",
        "level_claimed": {"category": cat, "text": text, "design_ref": ref},
        "level_note": COMMON_NOTE,
        "technique": tech,
    })
na = [{"property_id": i, "reason": TODO.get(i, "contract files for this property are still being written in this session; not claimed until its obligations run")}
      for i in ids if i not in CLAIMS]
m = {"version": 1, "setup_cmd": "./setup.sh",
     "hooks": {"guard": "JASM_VERIF", "enable": "none: no file of /repo is instrumented or hooked; contracts are sidecar files under /verif/contracts and the T1-T5 AST instrumentation is applied in memory on every run",
               "baseline_off_cmd": "cd /repo && /venv/bin/python -m pytest -q -p no:cacheprovider --timeout=900", "source_commits": [], "add_only": True},
     "engines": [{"name": "pyvc+rxeq", "path": "/verif/vf", "serves_properties": sorted(CLAIMS),
                  "kind_free_text": "self-built deductive verifier: VC generation by symbolic execution of the real Python functions (proxy values, all paths, callee contracts), discharged by z3 and by a complete automata decision procedure for regular-language VCs"}],
     "checks": checks, "not_applicable": na,
     "notes": "Exit codes: 0 held / 1 VIOLATION (+replay) / 2 undecided / 3 verifier error. JASM_REPO selects the tree (default /repo)."}
json.dump(m, open(os.path.join(ROOT, "MANIFEST.json"), "w"), indent=1)
try:
    import jsonschema
    jsonschema.validate(m, json.load(open("/root/.vp/MANIFEST.schema.json")))
    print("MANIFEST valid;", len(checks), "checks,", len(na), "not yet claimed")
except ImportError:
    print("written (jsonschema unavailable)")
