#!/bin/bash
# tools/batch_r4.sh <ids...> : confirm round-9 seeded changes (two per sub-agent: /tmp/wt/r9_<ID>/change_{A,B}.diff + demo_{A,B}.py)
# and run the property's check on each
for ID in "$@"; do
  for X in A B; do
    W=/tmp/wt/r9_$ID
    [ -f $W/change_$X.diff ] || { echo "$ID$X: not ready"; continue; }
    N=r9_${ID}$(echo $X | tr AB ab); D=/verif/seeded/$N; mkdir -p $D
    cp $W/change_$X.diff $D/patch.diff; cp $W/demo_$X.py $D/demo_seeded.py
    out=$(/verif/tools/try_seed.sh __none__ $N $ID 2>&1)
    echo "$N: $(echo "$out" | grep -E 'demo_without|demo_with|passed|-> check|DOES NOT APPLY' | tr '\n' ' ')"
  done
done
