import Mathlib.Tactic

open List

namespace JASMStream

/-- `[x].intercalate (rs ++ [[]])` is every chunk followed by the separator -/
theorem intercalate_append_nil {α : Type} (x : α) (rs : List (List α)) :
    [x].intercalate (rs ++ [[]]) = (rs.map (· ++ [x])).flatten := by
  induction rs with
  | nil => simp [List.intercalate]
  | cons r rs ih =>
    cases rs with
    | nil => simp [List.intercalate]
    | cons r2 rs2 =>
      have := ih
      simp [List.intercalate] at this ⊢
      simpa using this

/-- chunks terminated by a separator that occurs in none of them are recovered by splitting -/
theorem splitOn_terminated {α : Type} [BEq α] [LawfulBEq α] (x : α) (rs : List (List α))
    (h : ∀ r ∈ rs, x ∉ r) :
    ((rs.map (· ++ [x])).flatten).splitOn x = rs ++ [[]] := by
  rw [← intercalate_append_nil]
  apply splitOn_intercalate
  · intro l hl
    rcases List.mem_append.mp hl with h1 | h1
    · exact h l h1
    · simp at h1; subst h1; simp
  · simp

/-- an instruction of the stream: address, mnemonic, operand fields -/
structure Instr where
  addr : List Char
  mn : List Char
  ops : List (List Char)
deriving DecidableEq

def sepFree (s : List Char) : Prop := ',' ∉ s ∧ '|' ∉ s

/-- what C08-C10's obligations establish about every record: separator-free fields, colon-free address -/
def Valid (i : Instr) : Prop :=
  ':' ∉ i.addr ∧ sepFree i.addr ∧ sepFree i.mn ∧ ∀ o ∈ i.ops, sepFree o

/-- text of one record without the final '|':  addr "::" mn "," op "," ... op "," -/
def body (i : Instr) : List Char := [','].intercalate (i.mn :: i.ops ++ [[]])

def encodeRec (i : Instr) : List Char := i.addr ++ [':', ':'] ++ body i

def encode (is : List Instr) : List Char := ((is.map encodeRec).map (· ++ ['|'])).flatten

def decodeRec (r : List Char) : Instr :=
  let a := r.takeWhile (· ≠ ':')
  let rest := (r.dropWhile (· ≠ ':')).drop 2
  let fs := rest.splitOn ','
  { addr := a, mn := fs.headD [], ops := fs.tail.dropLast }

def decode (s : List Char) : List Instr := ((s.splitOn '|').dropLast).map decodeRec

theorem takeWhile_addr (a rest : List Char) (h : ':' ∉ a) :
    (a ++ ':' :: rest).takeWhile (· ≠ ':') = a := by
  induction a with
  | nil => simp
  | cons c a ih =>
    have hc : c ≠ ':' := by intro hh; apply h; simp [hh]
    have ha : ':' ∉ a := by intro hh; apply h; simp [hh]
    have := ih ha
    simp [hc]
    simpa using this

theorem dropWhile_addr (a rest : List Char) (h : ':' ∉ a) :
    (a ++ ':' :: rest).dropWhile (· ≠ ':') = ':' :: rest := by
  induction a with
  | nil => simp
  | cons c a ih =>
    have hc : c ≠ ':' := by intro hh; apply h; simp [hh]
    have ha : ':' ∉ a := by intro hh; apply h; simp [hh]
    have := ih ha
    simp [hc]
    simpa using this

theorem decodeRec_encodeRec (i : Instr) (h : Valid i) : decodeRec (encodeRec i) = i := by
  obtain ⟨hcolon, _, hmn, hops⟩ := h
  have hfields : ∀ l ∈ (i.mn :: i.ops ++ [[]]), ',' ∉ l := by
    intro l hl
    simp at hl
    rcases hl with h1 | h1 | h1
    · subst h1; exact hmn.1
    · exact (hops l h1).1
    · subst h1; simp
  have hsplit : (body i).splitOn ',' = i.mn :: i.ops ++ [[]] := by
    unfold body
    apply splitOn_intercalate
    · exact hfields
    · simp
  unfold decodeRec encodeRec
  have e : i.addr ++ [':', ':'] ++ body i = i.addr ++ ':' :: (':' :: body i) := by simp
  rw [e, takeWhile_addr _ _ hcolon, dropWhile_addr _ _ hcolon]
  simp [hsplit]

theorem encodeRec_no_bar (i : Instr) (h : Valid i) : '|' ∉ encodeRec i := by
  obtain ⟨_, haddr, hmn, hops⟩ := h
  unfold encodeRec body
  intro hh
  simp [List.mem_append] at hh
  rcases hh with h1 | h1
  · exact haddr.2 h1
  · -- '|' in the intercalated fields: it is in one of the fields (the separator is ',')
    have : ∀ (ls : List (List Char)), (∀ l ∈ ls, '|' ∉ l) → '|' ∉ [','].intercalate ls := by
      intro ls
      induction ls with
      | nil => intro _; simp [List.intercalate]
      | cons l ls ih =>
        intro hl
        cases ls with
        | nil => simpa [List.intercalate] using hl l (by simp)
        | cons l2 ls2 =>
          have h1' := hl l (by simp)
          have h2' := ih (fun m hm => hl m (by simp [hm]))
          simp [List.intercalate] at h2' ⊢
          refine ⟨h1', ?_⟩
          simpa using h2'
    apply this (i.mn :: i.ops ++ [[]]) _ h1
    intro l hl
    simp at hl
    rcases hl with h2 | h2 | h2
    · subst h2; exact hmn.2
    · exact (hops l h2).2
    · subst h2; simp

/-- UNIQUE DECODABILITY: the stream determines the instruction list -/
theorem decode_encode (is : List Instr) (h : ∀ i ∈ is, Valid i) : decode (encode is) = is := by
  unfold decode encode
  rw [splitOn_terminated '|' (is.map encodeRec)]
  · simp only [List.dropLast_concat]
    rw [List.map_map]
    conv_rhs => rw [← List.map_id is]
    apply List.map_congr_left
    intro i hi
    simp [decodeRec_encodeRec i (h i hi)]
  · intro r hr
    obtain ⟨i, hi, rfl⟩ := List.mem_map.mp hr
    exact encodeRec_no_bar i (h i hi)

/-- hence the encoding is injective on valid instruction lists -/
theorem encode_injective (xs ys : List Instr) (hx : ∀ i ∈ xs, Valid i) (hy : ∀ i ∈ ys, Valid i)
    (e : encode xs = encode ys) : xs = ys := by
  rw [← decode_encode xs hx, ← decode_encode ys hy, e]

end JASMStream
