import Mathlib.Computability.Language
import Mathlib.Tactic

open List

namespace TLoop

variable {α : Type}

/-- a set of words closed under taking factors (contiguous sub-words) -/
def FactorClosed (F : Set (List α)) : Prop :=
  ∀ u m v : List α, u ++ m ++ v ∈ F → m ∈ F

/-- two languages agree on the words of `F` -/
def AgreeOn (F : Set (List α)) (L M : Language α) : Prop :=
  ∀ w, w ∈ F → (w ∈ L ↔ w ∈ M)

theorem agree_add {F : Set (List α)} {L L' M M' : Language α}
    (h1 : AgreeOn F L L') (h2 : AgreeOn F M M') : AgreeOn F (L + M) (L' + M') := by
  intro w hw
  simp only [Language.mem_add]
  rw [h1 w hw, h2 w hw]

theorem agree_mul {F : Set (List α)} (hF : FactorClosed F) {L L' M M' : Language α}
    (h1 : AgreeOn F L L') (h2 : AgreeOn F M M') : AgreeOn F (L * M) (L' * M') := by
  intro w hw
  simp only [Language.mem_mul]
  constructor
  · rintro ⟨a, ha, b, hb, rfl⟩
    have haF : a ∈ F := hF [] a b (by simpa using hw)
    have hbF : b ∈ F := hF a b [] (by simpa using hw)
    exact ⟨a, (h1 a haF).mp ha, b, (h2 b hbF).mp hb, rfl⟩
  · rintro ⟨a, ha, b, hb, rfl⟩
    have haF : a ∈ F := hF [] a b (by simpa using hw)
    have hbF : b ∈ F := hF a b [] (by simpa using hw)
    exact ⟨a, (h1 a haF).mpr ha, b, (h2 b hbF).mpr hb, rfl⟩

/-- every chunk of a flattened list is a factor of it -/
theorem chunk_factor (S : List (List α)) (y : List α) (hy : y ∈ S) :
    ∃ u v, S.flatten = u ++ y ++ v := by
  induction S with
  | nil => simp at hy
  | cons s S ih =>
    rcases List.mem_cons.mp hy with h | h
    · subst h
      exact ⟨[], S.flatten, by simp⟩
    · obtain ⟨u, v, e⟩ := ih h
      exact ⟨s ++ u, v, by simp [e]⟩

theorem agree_kstar {F : Set (List α)} (hF : FactorClosed F) {L L' : Language α}
    (h : AgreeOn F L L') : AgreeOn F (KStar.kstar L) (KStar.kstar L') := by
  intro w hw
  simp only [Language.mem_kstar]
  constructor
  · rintro ⟨S, rfl, hS⟩
    refine ⟨S, rfl, ?_⟩
    intro y hy
    obtain ⟨u, v, e⟩ := chunk_factor S y hy
    have hyF : y ∈ F := hF u y v (by rw [← e]; exact hw)
    exact (h y hyF).mp (hS y hy)
  · rintro ⟨S, rfl, hS⟩
    refine ⟨S, rfl, ?_⟩
    intro y hy
    obtain ⟨u, v, e⟩ := chunk_factor S y hy
    have hyF : y ∈ F := hF u y v (by rw [← e]; exact hw)
    exact (h y hyF).mpr (hS y hy)

/-- words over a class `C` of length between `lo` and `hi` (`C{lo,hi}`), and of length at least `lo` (`C{lo,}`) -/
def boundedRep (C : Set α) (lo hi : ℕ) : Language α := {w | (∀ c ∈ w, c ∈ C) ∧ lo ≤ w.length ∧ w.length ≤ hi}
def unboundedRep (C : Set α) (lo : ℕ) : Language α := {w | (∀ c ∈ w, c ∈ C) ∧ lo ≤ w.length}

/-- the words all of whose `bar`-free factors are at most `N` long (records of at most `N` characters) -/
def ShortRuns (bar : α) (N : ℕ) : Set (List α) := {w | ∀ u m v, w = u ++ m ++ v → bar ∉ m → m.length ≤ N}

theorem shortRuns_factorClosed (bar : α) (N : ℕ) : FactorClosed (ShortRuns bar N) := by
  intro u m v hw u' m' v' e hb
  exact hw (u ++ u') m' (v' ++ v) (by simp [e]) hb

/-- T-loop: on streams whose records are at most `N <= hi` characters long, a bounded repetition of a class that does
not contain the record terminator is the unbounded one -/
theorem tloop (bar : α) (C : Set α) (hC : bar ∉ C) (lo hi N : ℕ) (hN : N ≤ hi) :
    AgreeOn (ShortRuns bar N) (boundedRep C lo hi) (unboundedRep C lo) := by
  intro w hw
  constructor
  · rintro ⟨h1, h2, _⟩
    exact ⟨h1, h2⟩
  · rintro ⟨h1, h2⟩
    refine ⟨h1, h2, ?_⟩
    have hb : bar ∉ w := by
      intro hh
      exact hC (h1 bar hh)
    exact le_trans (hw [] w [] (by simp) hb) hN

end TLoop
