import Mathlib.Computability.Language
import Mathlib.Tactic

open List

namespace TSub

variable {α β : Type}

/-- the language a word over the extended alphabet denotes when every letter `b` is replaced by any word of `σ b` -/
def substWord (σ : β → Language α) : List β → Language α
  | [] => 1
  | b :: w => σ b * substWord σ w

/-- regular substitution: the union of the denotations of the words of `L` -/
def subst (σ : β → Language α) (L : Language β) : Language α :=
  {x | ∃ w ∈ L, x ∈ substWord σ w}

theorem subst_mono (σ : β → Language α) {L M : Language β} (h : L ≤ M) : subst σ L ≤ subst σ M := by
  rintro x ⟨w, hw, hx⟩
  exact ⟨w, h hw, hx⟩

/-- an equality (or inclusion) proved over the extended alphabet holds after every substitution of the opaque letters -/
theorem subst_congr (σ : β → Language α) {L M : Language β} (h : L = M) : subst σ L = subst σ M := by
  rw [h]

theorem substWord_append (σ : β → Language α) (u v : List β) :
    substWord σ (u ++ v) = substWord σ u * substWord σ v := by
  induction u with
  | nil => simp [substWord]
  | cons b u ih => simp [substWord, ih, mul_assoc]

theorem subst_add (σ : β → Language α) (L M : Language β) : subst σ (L + M) = subst σ L + subst σ M := by
  ext x
  simp only [subst, Language.mem_add]
  constructor
  · rintro ⟨w, hw | hw, hx⟩
    · exact Or.inl ⟨w, hw, hx⟩
    · exact Or.inr ⟨w, hw, hx⟩
  · rintro (⟨w, hw, hx⟩ | ⟨w, hw, hx⟩)
    · exact ⟨w, Or.inl hw, hx⟩
    · exact ⟨w, Or.inr hw, hx⟩

theorem subst_mul (σ : β → Language α) (L M : Language β) : subst σ (L * M) = subst σ L * subst σ M := by
  ext x
  constructor
  · rintro ⟨w, hw, hx⟩
    obtain ⟨u, hu, v, hv, rfl⟩ := Language.mem_mul.mp hw
    rw [substWord_append] at hx
    obtain ⟨a, ha, b, hb, rfl⟩ := Language.mem_mul.mp hx
    exact Language.mem_mul.mpr ⟨a, ⟨u, hu, ha⟩, b, ⟨v, hv, hb⟩, rfl⟩
  · intro hx
    obtain ⟨a, ⟨u, hu, ha⟩, b, ⟨v, hv, hb⟩, rfl⟩ := Language.mem_mul.mp hx
    refine ⟨u ++ v, Language.mem_mul.mpr ⟨u, hu, v, hv, rfl⟩, ?_⟩
    rw [substWord_append]
    exact Language.mem_mul.mpr ⟨a, ha, b, hb, rfl⟩

end TSub
