#!/usr/bin/env python3
"""Self-validation of the checks (DESIGN section 8): deliberate property-breaking edits must give exit 1,
harmless refactors must give exit 0.  Every edit is applied to a scratch copy of /repo/src outside /repo
and /verif, which is removed afterwards.   usage: selftest/catalogue.py [filter]"""
import os, shutil, subprocess, sys, tempfile, json

V = os.path.dirname(os.path.dirname(os.path.abspath(__file__)))
B = "jasm_regex/tree_generators/pattern_node_implementations"
TB = "jasm_regex/tree_generators/pattern_node_type_builder"
PARSER = "stringify_asm/implementations/gnu_objdump/asm_manual_parser_w_regex.py"
# (id, file, old, new, properties to run, expected exit)
BREAKING = [
 ("or-no-outer-group", f"{B}/node_branch_root.py", 'return f"(?:{self.join_or_instructions(child_regexes)})"', 'return f"{self.join_or_instructions(child_regexes)}"', ["C03"]),
 ("suffix-class-admits-comma", "global_definitions.py", 'IGNORE_NAME_SUFFIX: Final = f"[^,|]{ASTERISK_WITH_LIMIT},"', 'IGNORE_NAME_SUFFIX: Final = f"[^|]{ASTERISK_WITH_LIMIT},"', ["C01", "C07"]),
 ("times-max-plus-one", f"{B}/time_type_builder.py", 'return f"{{{times.min_times},{times.max_times}}}"', 'return f"{{{times.min_times},{times.max_times + 1}}}"', ["C02"]),
 ("skip-bound-100", "global_definitions.py", 'r"{0,1000}"', 'r"{0,100}"', ["C01"]),
 ("times-default-min-0", "jasm_regex/tree_generators/pattern_node_builder.py", 'min_time = times.get("min", 1)', 'min_time = times.get("min", 0)', ["C02"]),
 ("negative-times-accepted", "jasm_regex/tree_generators/pattern_node_builder.py", 'if times < 0:', 'if times < -1:', ["C17", "C02"]),
 ("flag-polarity", f"{B}/mnemonic_and_operand/mnemonic_and_operand.py", 'return not config.get_info(key)', 'return bool(config.get_info(key))', ["C01"]),
 ("addr-skip-dropped-in-capture", f"{B}/capture_group/capture_group_instruction.py", 'return rf"{IGNORE_INST_ADDR}([^|]+),\\|"', 'return rf"([^|]+),\\|"', ["C07", "C05"]),
 ("not-lookahead-positive", f"{B}/node_branch_root.py", 'return f"(?:(?!{\'\'.join(child_regexes)}){skip_one_instruction})"', 'return f"(?:(?={\'\'.join(child_regexes)}){skip_one_instruction})"', ["C04"]),
 ("not-arity-unchecked", f"{TB}/ast_builder.py", 'if len(node.children) != 1:', 'if len(node.children) < 1:', ["C17", "C04"]),
 ("capture-index-off-by-one", "jasm_regex/tree_generators/capture_manager.py", 'return i + 1', 'return i + 2', ["C05"]),
 ("capture-ref-and-call-swapped", f"{TB}/capture_group_interface.py", 'return self._process_call(untyped_node)', 'return self._process_register(untyped_node)', ["C05"]),
 ("deref-b-c-swapped", "jasm_regex/tree_generators/deref_classes.py", 'rf"\\[{self.main_reg}\\+{self.register_multiplier}\\*{self.constant_multiplier}\\+{self.constant_offset}\\]"', 'rf"\\[{self.main_reg}\\+{self.constant_multiplier}\\*{self.register_multiplier}\\+{self.constant_offset}\\]"', ["C06"]),
 ("deref-missing-comma", f"{B}/deref.py", 'return f"{deref_regex},"', 'return f"{deref_regex}"', ["C06", "C07"]),
 ("any-order-drops-last-perm", f"{B}/node_branch_root.py", 'return [list(permutation) for permutation in permutations(child_regexes)]', 'return [list(permutation) for permutation in permutations(child_regexes)][:-1] or [list(child_regexes)]', ["C03"]),
 ("search-becomes-match", "consumer.py", 'match_result = regex.search(', 'match_result = regex.match(', ["C11", "C12"]),
 ("first-mode-returns-last", "consumer.py", 'self._matched_observer.regex_matched(match_result.group(0))\n\n    def do_match_all_findings', 'self._matched_observer.regex_matched(match_result.group(0)[1:])\n\n    def do_match_all_findings', ["C12", "C11"]),
 ("addr-split-wrong-index", "consumer.py", 'return regex_result.split("::")[0]', 'return regex_result.split("::")[-1]', ["C12", "C07"]),
 ("range-not-reset", "global_definitions.py", '            self._set_info("valid_addr_range", None)', '            pass', ["C14", "C18"]),
 ("sections-not-reset", "global_definitions.py", 'sections = config.get("sections", [])', 'sections = config.get("sections", self.global_info.get("sections", []))', ["C14", "C15"]),
 ("range-upper-exclusive", "global_definitions.py", 'return self.min.hex <= addr_hex.hex <= self.max.hex', 'return self.min.hex <= addr_hex.hex < self.max.hex', ["C18"]),
 ("valid-addr-tags-indirect", "match.py", '            if "*" in inst_addr_jump:\n                return inst\n', '', ["C18"]),
 ("j-flag-dropped", "stringify_asm/implementations/gnu_objdump/gnu_objdump_disassembler.py", 'section_flags.extend(["-j", section])', 'section_flags.extend([section])', ["C15"]),
 ("swallowed-disassembler-error", "stringify_asm/implementations/shell_disassembler.py", '            raise BinaryFileFormatNotSupported(exc.stderr) from exc', '            return ""', ["C17", "C15"]),
 ("all-matches-flag-inverted", "main.py", '    if args.all_matches:', '    if not args.all_matches:', ["C20"]),
 ("operands-split-inside-parens", PARSER, 'operands_list = re.split(r",(?![^\\(]*\\))", operands)', 'operands_list = operands.split(",")', ["C09"]),
 ("operand-stops-at-hash-only", PARSER, 'OPERANDS = r"([^# ]+)"', 'OPERANDS = r"([^#]+)"', ["C09", "C16", "C08"]),
 ("stream-terminator-missing-comma", "consumer.py", 'processed_inst.stringify() + ",|"', 'processed_inst.stringify() + "|"', ["C10"]),
 ("macro-final-scan-skips-keys", "jasm_regex/macro_expander/macro_expander.py", '                    found.update(self._collect_macro_names(key))\n', '', ["C19"]),
 ("macros-from-files-appended", "jasm_regex/yaml2regex.py", 'macros = processed_macros + macros', 'macros = macros + processed_macros', ["C13"]),
 ("macro-order-reversed", "jasm_regex/macro_expander/macro_expander.py", '        for macro in macros:\n            tmp_tree = self._resolve_macro', '        for macro in reversed(macros):\n            tmp_tree = self._resolve_macro', ["C13"]),
]
HARMLESS = [
 ("hex-class-spelling", "global_definitions.py", 'IGNORE_INST_ADDR: Final = r"[\\dabcedf]+::"', 'IGNORE_INST_ADDR: Final = r"[0-9a-f]+::"', ["C01", "C07", "C05", "C11"]),
 ("skip-bound-larger", "global_definitions.py", 'r"{0,1000}"', 'r"{0,4096}"', ["C01", "C03", "C07"]),
 ("skip-star", "global_definitions.py", 'ASTERISK_WITH_LIMIT: Final = r"{0,1000}"', 'ASTERISK_WITH_LIMIT: Final = r"*"', ["C01", "C04", "C07"]),
 ("extra-noncapturing-group", f"{B}/node_branch_root.py", 'regex_instructions = [f"(?:{elem})" for elem in inst_list]\n\n        joined_by_bar_instructions = "|".join(regex_instructions)\n\n        return joined_by_bar_instructions', 'regex_instructions = [f"(?:(?:{elem}))" for elem in inst_list]\n\n        joined_by_bar_instructions = "|".join(regex_instructions)\n\n        return joined_by_bar_instructions', ["C03", "C02", "C05"]),
 ("renamed-local-times", f"{B}/time_type_builder.py", 'def get_min_max_regex(times: TimesType) -> Optional[str]:\n\n        if times.min_times == 1 and times.max_times == 1:\n            return None\n        if times.min_times == times.max_times:\n            return f"{{{times.min_times}}}"\n        return f"{{{times.min_times},{times.max_times}}}"', 'def get_min_max_regex(times: TimesType) -> Optional[str]:\n        lo, hi = times.min_times, times.max_times\n        if lo == 1 and hi == 1:\n            return None\n        if lo == hi:\n            return f"{{{lo}}}"\n        return f"{{{lo},{hi}}}"', ["C02", "C03"]),
 ("quantifier-always-two-bounds", f"{B}/time_type_builder.py", '            return f"{{{times.min_times}}}"', '            return f"{{{times.min_times},{times.max_times}}}"', ["C02"]),
 ("class-order", "global_definitions.py", 'SKIP_TO_START_OF_OPERAND: Final = f"[^|,]{ASTERISK_WITH_LIMIT}"', 'SKIP_TO_START_OF_OPERAND: Final = f"[^,|]{ASTERISK_WITH_LIMIT}"', ["C01"]),
 ("reordered-config-loads", "global_definitions.py", '        self._load_full_match_options(config)\n        self._load_assembly_style(config)\n        self._load_valid_addr_range(config)\n        self._load_sections(config)', '        self._load_sections(config)\n        self._load_valid_addr_range(config)\n        self._load_assembly_style(config)\n        self._load_full_match_options(config)', ["C14", "C18", "C15"]),
 ("observer-loop-as-comprehension", "stringify_asm/implementations/gnu_objdump/gnu_objdump_disassembler.py", '        section_flags = []\n        for section in sections:\n            section_flags.extend(["-j", section])\n        return section_flags', '        return [flag for section in sections for flag in ("-j", section)]', ["C15"]),
 ("matched-flag-after-append", "matched_observers.py", '        self.matched = True\n        self.addr_list.append(addr)', '        self.addr_list.append(addr)\n        self.matched = True', ["C12", "C11", "C20"]),
 ("jump-list-as-tuple", "match.py", 'jump_mnemonics = [\n            "call", "callq", "jmp", "jne", "je", "jg", "jge", "jl", "jle", "jz", "jnz"\n        ]', 'jump_mnemonics = (\n            "call", "callq", "jmp", "jne", "je", "jg", "jge", "jl", "jle", "jz", "jnz"\n        )', ["C18"]),
 ("parser-hex-class-lower-upper", PARSER, 'HEX_NUMBER = "[0-9a-fA-F]"', 'HEX_NUMBER = "[0-9A-Fa-f]"', ["C08", "C16", "C09"]),
 ("macro-name-check-helper-inlined", "jasm_regex/macro_expander/macro_expander.py", '            if not self.is_macro_name(macro_name):', '            if not macro_name.startswith("@"):', ["C19", "C13"]),
 ("parser-precompiled-regexes", PARSER, 'match = re.match(INSTRUCTION_W_OPERANDS, self.line)', 'match = re.compile(INSTRUCTION_W_OPERANDS).match(self.line)', ["C08", "C16", "C09"]),
 ("parser-fullmatch-label", PARSER, 'match = re.match(LINE_IS_LABER, self.line)', 'match = re.fullmatch(LINE_IS_LABER.rstrip("$"), self.line)', ["C08", "C16"]),
 ("consumer-positional-engine-args", "consumer.py", 'match_iterator = regex.finditer(\n                pattern=self._regex_rule, string=self._all_instructions, timeout=self.timeout_regex\n            )', 'match_iterator = regex.finditer(self._regex_rule, self._all_instructions, timeout=self.timeout_regex)', ["C11", "C12"]),
 ("validaddr-checks-reordered", "match.py", '        inst_addr_jump = inst.operands[0] if inst.operands else None\n\n        if inst_addr_jump is None:\n            return inst\n\n        # The instruction is a jmp or call\n        if inst.mnemonic in jump_mnemonics:\n', '        if inst.mnemonic not in jump_mnemonics:\n            return inst\n        inst_addr_jump = inst.operands[0] if inst.operands else None\n\n        if inst_addr_jump is None:\n            return inst\n\n        if True:\n', ["C18"]),
 ("macro-names-validated-by-comprehension", "jasm_regex/macro_expander/macro_expander.py", '        for macro in macros:\n            macro_name = macro.get("name")\n            if not self.is_macro_name(macro_name):\n                raise ValueError(f"Macro name {macro_name} must start with \'@\'")\n', '        bad_names = [macro.get("name") for macro in macros if not self.is_macro_name(macro.get("name"))]\n        if bad_names:\n            raise ValueError(f"Macro name {bad_names[0]} must start with \'@\'")\n', ["C19", "C13", "C17"]),
 ("stringify-by-concatenation", "global_definitions.py", 'return f"{self.addr}::{self.mnemonic},{\',\'.join(self.operands)}"', 'return self.addr + "::" + self.mnemonic + "," + ",".join(self.operands)', ["C10", "C08"]),
 ("config-get-instance-everywhere", "match.py", '        self.global_config = JASMConfig()', '        self.global_config = JASMConfig.get_instance()', ["C14", "C12", "C18"]),
 ("argparse-help-text", "parse_arguments.py", 'help="Return only matched addresses"', 'help="Only print the addresses of the matches"', ["C20"]),
]


ALL = [f"C{i:02d}" for i in range(1, 21)]
# consistent renamings of an identifier in every file (word-boundary textual replace): harmless by construction
RENAMINGS = [
 ("rename-private-parser-method", "_process_operand_elem", "_normalise_operand", ["C06", "C08", "C09", "C10", "C16"]),
 ("rename-private-regex-former", "_form_regex_without_time", "_regex_once", ["C01", "C02", "C07", "C11"]),
 ("rename-get-regex", "get_regex", "as_regex", ALL),
 ("rename-macro-recursion", "_apply_macro_recursively", "_expand_in", ["C13", "C19", "C17"]),
 ("rename-macro-name-collector", "_collect_macro_names", "_names_in", ["C13", "C19"]),
 ("rename-driver-method", "_do_matching_and_get_result", "_run_matching", ["C11", "C12", "C14", "C18", "C20", "C17"]),
 ("rename-capture-index", "get_capture_index", "index_of", ["C05", "C07"]),
 ("rename-captures-manager-class", "CapturesManager", "CaptureTable", ["C05", "C14"]),
 ("rename-stream-field", "_all_instructions", "_stream_text", ["C10", "C11", "C12"]),
 ("rename-load-sections", "_load_sections", "_read_sections", ["C14", "C15", "C17"]),
 ("rename-section-flags", "_form_section_flags", "_section_args", ["C15"]),
 ("rename-valid-addr-observer", "ValidAddrObserver", "AddressRangeTagger", ["C18", "C12"]),
 ("rename-resolver-iter", "_iter_items_with_path", "_walk", ["C13"]),
 ("rename-args-mapping", "get_args_mapping_dict", "mapping_for", ["C13"]),
 ("rename-times-regex", "get_min_max_regex", "quantifier_text", ["C02", "C03", "C04"]),
 ("rename-observer-field-addr-list", "addr_list", "hit_list", ["C11", "C12", "C13", "C14", "C20"]),
 ("rename-resolve-method", "resolve", "substitute_args", ["C13", "C19"]),
 ("rename-perform-matching", "perform_matching", "execute_matching", ["C12", "C14", "C17", "C20"]),
 # new name NOT fresh (`run` also names subprocess.run): no global substitution is sound; the old name becomes an alias, contracts that
 # stub the method are undecided (exit 2) -- never a violation
 ("rename-perform-matching-to-existing-name", "perform_matching", "run", ["C12", "C14", "C17", "C20"], "no-violation"),
 ("rename-deref-former", "_get_regex_from_full_deref", "_full_form", ["C06", "C05"]),
]


def run(entry, expect):
    if isinstance(entry[3], list) and isinstance(entry[1], str) and not entry[1].endswith(".py"):
        return run_rename(entry)
    ident, f, old, new, props = entry
    S = tempfile.mkdtemp(prefix="vfself.")
    try:
        os.makedirs(os.path.join(S, "src"))
        shutil.copytree("/repo/src/jasm", os.path.join(S, "src", "jasm"))
        shutil.copytree("/repo/tests/macros", os.path.join(S, "tests", "macros"))
        shutil.copy("/repo/pyproject.toml", S)
        p = os.path.join(S, "src", "jasm", f)
        s = open(p).read()
        if old not in s:
            return ident, "DID-NOT-APPLY", {}
        open(p, "w").write(s.replace(old, new, 1))
        res = {}
        for pr in props:
            env = dict(os.environ, JASM_REPO=S)
            r = subprocess.run([os.path.join(V, "check"), pr], capture_output=True, text=True, env=env)
            res[pr] = r.returncode
        if expect == "violation":
            ok = any(v == 1 for v in res.values())
        else:
            ok = all(v == 0 for v in res.values())
        return ident, "as-expected" if ok else "UNEXPECTED", res
    finally:
        shutil.rmtree(S, ignore_errors=True)


def run_rename(entry):
    import re
    ident, old, new, props = entry[:4]
    lenient = len(entry) > 4
    S = tempfile.mkdtemp(prefix="vfself.")
    try:
        os.makedirs(os.path.join(S, "src"))
        shutil.copytree("/repo/src/jasm", os.path.join(S, "src", "jasm"))
        shutil.copytree("/repo/tests/macros", os.path.join(S, "tests", "macros"))
        shutil.copy("/repo/pyproject.toml", S)
        n = 0
        for dp, _d, fns in os.walk(os.path.join(S, "src")):
            for fn in fns:
                if fn.endswith(".py"):
                    p = os.path.join(dp, fn)
                    t = open(p).read()
                    t2, k = re.subn(r"\b" + re.escape(old) + r"\b", new, t)
                    if k:
                        open(p, "w").write(t2)
                        n += k
        if not n:
            return ident, "DID-NOT-APPLY", {}
        res = {}
        for pr in props:
            r = subprocess.run([os.path.join(V, "check"), pr], capture_output=True, text=True, env=dict(os.environ, JASM_REPO=S))
            res[pr] = r.returncode
        ok = all(v in (0, 2) for v in res.values()) if lenient else all(v == 0 for v in res.values())
        return ident, "as-expected" if ok else "UNEXPECTED", res
    finally:
        shutil.rmtree(S, ignore_errors=True)


def main():
    flt = sys.argv[1] if len(sys.argv) > 1 else ""
    out = []
    for kind, lst, expect in (("breaking", BREAKING, "violation"), ("harmless", HARMLESS, "ok"), ("renaming", RENAMINGS, "ok")):
        for e in lst:
            if flt and flt not in e[0] and flt != kind:
                continue
            ident, verdict, res = run(e, expect)
            print(f"{kind:9s} {ident:38s} {verdict:14s} {res}", flush=True)
            out.append({"kind": kind, "id": ident, "verdict": verdict, "exit_codes": res, "file": e[1]})
    json.dump(out, open(os.path.join(V, "selftest", "last_run.json"), "w"), indent=1)
    bad = [o for o in out if o["verdict"] != "as-expected"]
    print(f"{len(out)} entries, {len(bad)} not as expected")
    return 1 if bad else 0


if __name__ == "__main__":
    sys.exit(main())
