#!/bin/bash
# selftest/mutate.sh <file-relative-to-src/jasm> <python-expr old> <new> -- <props...>
# applies a textual mutation to a scratch copy of /repo/src (outside /repo and /verif), runs the checks, removes the copy
set -u
F="$1"; OLD="$2"; NEW="$3"; shift 3; [ "$1" = "--" ] && shift
S=$(mktemp -d /tmp/vfscratch.XXXXXX)
mkdir -p "$S/src"; cp -r /repo/src/jasm "$S/src/jasm"; : > "$S/src/__init__.py"
python3 - "$S/src/jasm/$F" "$OLD" "$NEW" <<'PY'
import sys
p,old,new=sys.argv[1:4]
s=open(p).read()
if old not in s: print("MUTATION DID NOT APPLY"); sys.exit(7)
open(p,'w').write(s.replace(old,new,1))
PY
[ $? -eq 0 ] || { rm -rf "$S"; exit 7; }
for P in "$@"; do
  JASM_REPO="$S" "$(dirname "$0")/../check" "$P" 2>&1 | tail -4
  echo "  -> $P exit=${PIPESTATUS[0]}"
done
rm -rf "$S"
